#!/usr/bin/env python3
"""Core of the cproc verification machinery: snapshot/build pipeline, CBMC
instance runner (with witness twins, back-end portfolio, caps), counterexample
extraction + native replay, evidence writer.  See /verif/DESIGN.md section 2."""
import hashlib, json, os, re, shutil, subprocess, sys, time, fcntl, glob, random, threading
from concurrent.futures import ThreadPoolExecutor

VERIF = os.path.dirname(os.path.dirname(os.path.abspath(__file__)))
REPO = os.environ.get('VERIF_REPO', '/repo')
SCRATCH = os.environ.get('VERIF_SCRATCH', '/var/tmp/cproc-verif')
GUARD = 'CPROC_VERIF'
UNITS = ['attr', 'decl', 'eval', 'expr', 'init', 'main', 'map', 'pp', 'scan', 'scope', 'stmt', 'targ',
         'token', 'tree', 'type', 'utf', 'util', 'qbe', 'driver']
JOBS = int(os.environ.get('VERIF_JOBS', '16'))


def sh(cmd, **kw):
    return subprocess.run(cmd, capture_output=True, text=True, **kw)


def log(*a):
    print(*a, file=sys.stderr, flush=True)


# ---------------------------------------------------------------------------
# Build: snapshot of /repo's working tree -> rewritten tree -> goto binaries,
# native objects (statics exported under CBMC's mangled names) and binaries.
# Cached by content hash of the sources (a cache miss rebuilds everything).
# ---------------------------------------------------------------------------
class Build:
    def __init__(self):
        self.srcfiles = sorted(glob.glob(REPO + '/*.c') + glob.glob(REPO + '/*.h'))
        h = hashlib.sha256()
        for f in self.srcfiles + [os.path.join(VERIF, 'vlib', 'unionfix.py'), os.path.join(VERIF, 'vlib', 'core.py')]:
            h.update(os.path.basename(f).encode() + b'\0' + open(f, 'rb').read() + b'\0')
        self.hash = h.hexdigest()[:16]
        self.dir = os.path.join(SCRATCH, 'build-' + self.hash)
        self.raw = os.path.join(self.dir, 'raw')
        self.uf = os.path.join(self.dir, 'uf')
        self.gb = os.path.join(self.dir, 'gb')
        self.nat = os.path.join(self.dir, 'nat')
        self.info = {}
        os.makedirs(SCRATCH, exist_ok=True)
        with open(os.path.join(SCRATCH, 'lock'), 'w') as lk:
            fcntl.flock(lk, fcntl.LOCK_EX)
            if not os.path.exists(os.path.join(self.dir, 'ok')):
                self._gc()
                self._build()
            else:
                os.utime(os.path.join(self.dir, 'ok'))
                os.utime(self.dir)
            self.info = json.load(open(os.path.join(self.dir, 'info.json')))

    def _gc(self):
        # keep scratch small: drop all but the 2 most recent builds and stale work dirs
        # (a build another run may still be using - touched within the last 4 hours - is never removed)
        bs = sorted(glob.glob(SCRATCH + '/build-*'), key=lambda d: os.path.getmtime(d))
        for d in bs[:-2]:
            if time.time() - os.path.getmtime(d) > 4 * 3600:
                shutil.rmtree(d, ignore_errors=True)
        for d in glob.glob(SCRATCH + '/work-*'):
            if time.time() - os.path.getmtime(d) > 6 * 3600:
                shutil.rmtree(d, ignore_errors=True)

    def _build(self):
        t0 = time.time()
        shutil.rmtree(self.dir, ignore_errors=True)
        for d in (self.raw, self.uf, self.gb, self.nat):
            os.makedirs(d)
        # 2.1 snapshot of the working tree (not HEAD)
        r = sh(['rsync', '-a', '--exclude', '.git', '--exclude', '*.o', '--exclude', '/cproc', '--exclude', '/cproc-qbe',
                '--exclude', '/stage2', '--exclude', '/stage3', REPO + '/', self.raw + '/'])
        if r.returncode:
            raise RuntimeError('snapshot failed: ' + r.stderr)
        if not os.path.exists(self.raw + '/config.h'):
            sh(['./configure'], cwd=self.raw)
        for f in glob.glob(self.raw + '/*.[ch]'):
            shutil.copy(f, self.uf)
        # 2.2 unionfix
        sys.path.insert(0, os.path.join(VERIF, 'vlib'))
        import unionfix
        sites, macros = unionfix.rewrite_dir(self.uf)
        hoisted = unionfix.hoist_basic(self.uf)
        info = {'source_hash': self.hash, 'unionfix_sites': sum(sites.values()), 'unionfix_macro_sites': macros, 'hoist_basic_sites': hoisted}
        # 2.5 native build of the unmodified snapshot (guard on) + of the rewritten tree
        natsrc = os.path.join(self.dir, 'natsrc')
        shutil.copytree(self.raw, natsrc)
        ufsrc = os.path.join(self.dir, 'ufsrc')
        shutil.copytree(self.raw, ufsrc)
        for f in glob.glob(self.uf + '/*.[ch]'):
            shutil.copy(f, ufsrc)

        def mk(d):
            return sh(['make', '-s', '-j8', '-C', d, 'CFLAGS=-O1 -w -D' + GUARD])
        with ThreadPoolExecutor(2) as ex:
            r1, r2 = ex.map(mk, [natsrc, ufsrc])
        if r1.returncode or r2.returncode:
            raise RuntimeError('native build failed:\n' + r1.stderr[-2000:] + r2.stderr[-2000:])
        shutil.copy(natsrc + '/cproc-qbe', self.nat + '/cproc-qbe')
        shutil.copy(natsrc + '/cproc', self.nat + '/cproc')
        # unionfix guard (i): rewritten build == original build on every test input
        tests = sorted(glob.glob(self.raw + '/test/*.c'))

        def diff1(t):
            arch = t[:-2].split('+')[1] if '+' in os.path.basename(t) else 'x86_64-sysv'
            flags = ['-t', arch] + (['-E'] if os.path.exists(t[:-2] + '.pp') else [])
            a = subprocess.run([natsrc + '/cproc-qbe'] + flags + [t], capture_output=True)
            b = subprocess.run([ufsrc + '/cproc-qbe'] + flags + [t], capture_output=True)
            return (a.returncode, a.stdout) == (b.returncode, b.stdout)
        with ThreadPoolExecutor(JOBS) as ex:
            same = list(ex.map(diff1, tests))
        info['unionfix_difftest'] = {'inputs': len(tests), 'identical': sum(same)}
        if not all(same):
            raise RuntimeError('unionfix changed behaviour on %d test inputs' % (len(tests) - sum(same)))
        shutil.rmtree(natsrc)
        shutil.rmtree(ufsrc)

        # 2.3 goto binaries from the rewritten tree; native -O0 objects from the raw tree
        def comp(u):
            r = sh(['goto-cc', '-I', self.uf, '-D' + GUARD, '-D__NO_CTYPE', '--export-file-local-symbols', '-c',
                    os.path.join(self.uf, u + '.c'), '-o', os.path.join(self.gb, u + '.gb')])
            if r.returncode:
                return u + ': goto-cc: ' + r.stderr[-1500:]
            o = os.path.join(self.nat, u + '.o')
            r = sh(['gcc', '-O0', '-g', '-w', '-fno-builtin', '-fno-inline', '-D' + GUARD, '-I', self.raw, '-c',
                    os.path.join(self.raw, u + '.c'), '-o', o])
            if r.returncode:
                return u + ': gcc: ' + r.stderr[-1500:]
            # export statics under CBMC's mangled names, make every definition weak so a harness may override it
            syms = sh(['nm', o]).stdout.split('\n')
            args = []
            for l in syms:
                p = l.split()
                if len(p) == 3 and p[1] == 't' and '.' not in p[2]:
                    m = '__CPROVER_file_local_%s_c_%s' % (u, p[2])
                    args += ['--redefine-sym', '%s=%s' % (p[2], m), '--globalize-symbol', m]
                elif len(p) == 3 and p[1] in 'dbr' and '.' not in p[2]:
                    # goto-cc keeps file-scope static *variables* under their plain name
                    args += ['--globalize-symbol', p[2]]
            r = sh(['objcopy'] + args + [o])
            if r.returncode:
                return u + ': objcopy: ' + r.stderr
            r = sh(['objcopy', '--weaken', o])
            if r.returncode:
                return u + ': objcopy: ' + r.stderr
            return None
        with ThreadPoolExecutor(JOBS) as ex:
            errs = [e for e in ex.map(comp, UNITS) if e]
        if errs:
            raise RuntimeError('unit build failed:\n' + '\n'.join(errs))
        info['build_s'] = round(time.time() - t0, 1)
        json.dump(info, open(os.path.join(self.dir, 'info.json'), 'w'))
        open(os.path.join(self.dir, 'ok'), 'w').write('ok')

    def unit_gb(self, unit, overrides):
        """goto binary of a unit with the bodies of overridden functions removed."""
        src = os.path.join(self.gb, unit + '.gb')
        if not overrides:
            return src
        defined = self._defs(unit)
        ov = sorted(set(overrides) & defined)
        if not ov:
            return src
        tag = hashlib.sha1(','.join(ov).encode()).hexdigest()[:10]
        dst = os.path.join(self.gb, '%s.%s.gb' % (unit, tag))
        with Build._lock:
          if not os.path.exists(dst):
            tmp = dst + '.%d.tmp' % os.getpid()
            args = []
            for f in ov:
                args += ['--remove-function-body', f]
            r = sh(['goto-instrument'] + args + [src, tmp])
            if r.returncode:
                raise RuntimeError('goto-instrument failed: ' + r.stdout + r.stderr)
            os.rename(tmp, dst)
        return dst
        if False:
            pass
        return dst

    _defcache = {}
    _lock = __import__('threading').Lock()

    def _defs(self, unit):
        k = (self.dir, unit)
        if k not in Build._defcache:
            out = sh(['nm', os.path.join(self.nat, unit + '.o')]).stdout
            s = set()
            for l in out.split('\n'):
                p = l.split()
                if len(p) == 3 and p[1] in 'TtWwVvDdBbRr':
                    s.add(p[2])
            Build._defcache[k] = s
        return Build._defcache[k]


# ---------------------------------------------------------------------------
# Instances
# ---------------------------------------------------------------------------
class Inst:
    """One solver query family: a harness + concrete skeleton (defines) whose value inputs are symbolic."""

    def __init__(self, name, harness, defs=None, units=(), overrides=(), unwind=8, unwindset=(), safety=False,
                 backends=('sat',), timeout=60, mem_gb=8, extra=(), bound=None, witness=True, replay=True,
                 family=None, expect_fail=None, nd_hint=None, files=None, native_units=(), optional=False):
        self.name = name
        self.harness = harness
        self.defs = dict(defs or {})
        self.units = list(units)
        self.overrides = list(overrides)
        self.unwind = unwind
        self.unwindset = list(unwindset)
        self.safety = safety
        self.backends = list(backends)
        self.timeout = timeout
        self.mem_gb = mem_gb
        self.extra = list(extra)
        self.bound = bound or {}
        self.witness = witness
        self.replay = replay
        self.family = family or harness
        self.expect_fail = expect_fail  # regex on assertion text: a *known finding probe* that must fail
        self.nd_hint = nd_hint
        self.native_units = list(native_units)
        self.optional = optional   # a deeper variant of another instance: no verdict within the cap is recorded, not an error   # extra units only the native replay needs to link
        self.files = dict(files or {})   # generated include files (name -> text), written next to the instance


BACKEND_FLAGS = {
    'sat': [],
    'cadical': ['--sat-solver', 'cadical'],
    'kissat': ['--external-sat-solver', 'kissat'],
    'z3': ['--z3'],
    'z3s': ['--z3', '--slice-formula'],   # slicing also avoids an smt2_conv invariant failure on eval.c's constant union
    'cvc5': ['--cvc5'],
}
# undefined-behaviour checks used by the C19 instances.  Not used: --conversion-check / --float-overflow-check / --nan-check (they flag
# conversions and IEEE results that C defines), --pointer-overflow-check and --pointer-primitive-check (failures cannot be confirmed natively).
SAFETY_FLAGS = ['--bounds-check', '--pointer-check', '--div-by-zero-check', '--signed-overflow-check', '--undefined-shift-check']
RESULT_RE = re.compile(r'^\[(\S+)\] (?:line (\d+) )?(.*): (SUCCESS|FAILURE|UNKNOWN)$', re.M)


def _defs_args(defs):
    out = []
    for k, v in defs.items():
        out.append('-D%s' % k if v is None or v is True else '-D%s=%s' % (k, v))
    return out


class Runner:
    def __init__(self, build, prop, tier, seed):
        self.b = build
        self.prop = prop
        self.tier = tier
        self.seed = seed
        self.work = os.path.join(SCRATCH, 'work-%s-%d' % (prop, os.getpid()))
        shutil.rmtree(self.work, ignore_errors=True)
        os.makedirs(self.work)
        self.solver_s = 0.0
        self.peak_rss_kb = 0

    def cleanup(self):
        shutil.rmtree(self.work, ignore_errors=True)

    # -- compile + link one instance ----------------------------------------
    def _prepare(self, inst, witness):
        d = os.path.join(self.work, re.sub(r'[^A-Za-z0-9_.+-]', '_', inst.name) + ('.w' if witness else ''))
        os.makedirs(d, exist_ok=True)
        hsrc = os.path.join(VERIF, 'harness', inst.harness)
        hgb = os.path.join(d, 'h.gb')
        for fn, txt in inst.files.items():
            open(os.path.join(d, fn), 'w').write(txt)
        defs = dict(inst.defs)
        if witness:
            defs['WITNESS'] = None
        r = sh(['goto-cc', '-I', d, '-I', self.b.uf, '-I', os.path.join(VERIF, 'harness'), '-D' + GUARD, '-D__NO_CTYPE']
               + _defs_args(defs) + ['-c', hsrc, '-o', hgb])
        if r.returncode:
            return None, 'goto-cc failed: ' + (r.stdout + r.stderr)[-3000:]
        gbs = [hgb] + [self.b.unit_gb(u, inst.overrides) for u in inst.units]
        return (d, gbs), None

    def _cbmc_cmd(self, inst, gbs, backend, trace=False):
        cmd = ['cbmc'] + gbs + ['--function', 'main', '--object-bits', '12', '--unwind', str(inst.unwind), '--no-malloc-may-fail',
                                '--drop-unused-functions', '--verbosity', '4']
        if inst.unwindset:
            cmd += ['--unwindset', ','.join(inst.unwindset)]
        if inst.safety:
            cmd += SAFETY_FLAGS
        else:
            cmd += ['--no-standard-checks']
        cmd += ['--unwinding-assertions']
        cmd += BACKEND_FLAGS[backend] + inst.extra
        if trace:
            cmd += ['--trace', '--compact-trace']
        return cmd

    def _exec(self, cmd, timeout, mem_gb, cwd):
        t0 = time.time()
        if os.environ.get('VERIF_TIMEOUT_CAP'):       # shorter per-query limit for a time-boxed run of the thorough tier
            timeout = min(timeout, int(os.environ['VERIF_TIMEOUT_CAP']))
        full = ['/usr/bin/time', '-f', 'VERIF_RSS %M', 'timeout', '-k', '5', str(timeout), 'bash', '-c',
                'ulimit -v %d; exec "$@"' % (mem_gb * 1024 * 1024), 'x'] + cmd
        # CBMC's SMT2 back end leaves smt2_dec_* files in TMPDIR when it is killed by the time limit: give every query its own TMPDIR
        td = os.path.join(cwd, 'tmp%d' % os.getpid() + '_%d' % threading.get_ident())
        os.makedirs(td, exist_ok=True)
        try:
            r = subprocess.run(full, capture_output=True, text=True, cwd=cwd, errors='replace', env=dict(os.environ, TMPDIR=td))
        finally:
            shutil.rmtree(td, ignore_errors=True)
        dt = time.time() - t0
        m = re.search(r'VERIF_RSS (\d+)', r.stderr)
        rss = int(m.group(1)) if m else 0
        self.solver_s += dt
        self.peak_rss_kb = max(self.peak_rss_kb, rss)
        return r, dt, rss

    def _solve(self, inst, witness):
        prep, err = self._prepare(inst, witness)
        if err:
            return {'status': 'ERROR', 'detail': err}
        d, gbs = prep
        last = None
        for be in inst.backends:
            cmd = self._cbmc_cmd(inst, gbs, be)
            r, dt, rss = self._exec(cmd, inst.timeout, inst.mem_gb, d)
            out = r.stdout
            res = RESULT_RE.findall(out)
            last = {'backend': be, 'time_s': round(dt, 2), 'rss_mb': rss // 1024, 'dir': d, 'gbs': gbs}
            if r.returncode in (0, 10) and res:
                failed = [(pid, msg) for pid, line, msg, st in res if st == 'FAILURE']
                last.update(status='PASS' if not failed else 'FAIL', nprops=len(res), failed=failed)
                if not failed and any(st == 'UNKNOWN' for *_, st in res):      # a FAILURE is conclusive whatever else stayed undecided
                    last['status'] = 'INCONCLUSIVE'
                    last['detail'] = 'UNKNOWN results'
                    continue
                return last
            if r.returncode == 124 or r.returncode == 137 or 'std::bad_alloc' in r.stderr or 'Out of memory' in (out + r.stderr):
                last.update(status='INCONCLUSIVE', detail='timeout/oom rc=%d after %.0fs' % (r.returncode, dt))
                continue
            last.update(status='ERROR', detail='rc=%d\n%s\n%s' % (r.returncode, out[-2500:], r.stderr[-1500:]))
            return last
        return last

    # -- public: run one instance (main query + witness twin) --------------------
    def run(self, inst, do_witness=True):
        res = {'name': inst.name, 'family': inst.family, 'bound': inst.bound}
        main = self._solve(inst, False)
        res.update({k: main.get(k) for k in ('status', 'backend', 'time_s', 'rss_mb', 'nprops', 'detail')})
        res['failed'] = main.get('failed', [])
        res['witness'] = None
        if main['status'] == 'FAIL':
            res['cex'] = self._counterexample(inst, main)
        if main['status'] == 'PASS' and inst.witness and do_witness:
            w = self._solve(inst, True)
            wit = [m for _, m in w.get('failed', []) if 'witness' in m]
            if w['status'] == 'FAIL' and wit:
                res['witness'] = 'reachable'
            elif w['status'] in ('PASS', 'FAIL'):
                res['witness'] = 'UNREACHABLE'
                res['status'] = 'VACUOUS'
            else:
                res['witness'] = 'inconclusive'
                res['status'] = 'INCONCLUSIVE'
                res['detail'] = 'witness twin: ' + str(w.get('detail'))
            res['time_s'] = round(res['time_s'] + w.get('time_s', 0), 2)
        # drop instance dirs unless failed (keep scratch small)
        for suffix in ('', '.w'):
            dd = os.path.join(self.work, re.sub(r'[^A-Za-z0-9_.+-]', '_', inst.name) + suffix)
            if res['status'] in ('PASS',) and os.path.isdir(dd):
                shutil.rmtree(dd, ignore_errors=True)
        return res

    # -- counterexample extraction + native replay ----------------------------------
    def _counterexample(self, inst, main):
        d, gbs = main['dir'], main['gbs']
        # traces always from a SAT back end (z3 trace building crashes on bit-field structs)
        be = main['backend'] if main['backend'] not in ('z3', 'z3s', 'cvc5') else 'sat'
        cmd = self._cbmc_cmd(inst, gbs, be, trace=True) + ['--stop-on-fail'] if False else self._cbmc_cmd(inst, gbs, be, trace=True)
        r, dt, rss = self._exec(cmd, max(inst.timeout * 3, 120), max(inst.mem_gb, 12), d)
        if r.returncode != 10 and main['backend'] in ('z3', 'z3s', 'cvc5'):
            cmd = self._cbmc_cmd(inst, gbs, main['backend'], trace=True)
            r, dt, rss = self._exec(cmd, max(inst.timeout * 3, 120), max(inst.mem_gb, 12), d)
        out = r.stdout
        names = self._nd_names(inst)
        # split per failing property: "Trace for <id>:" sections
        sections = re.split(r'^Trace for (\S+):$', out, flags=re.M)
        cex = {}
        if len(sections) >= 3:
            body = sections[2]
            pid = sections[1]
        else:
            body, pid = out, None
        vals = {}
        # only assignments made while control is in a function *defined by the harness* count: callee locals may carry the same names
        # (e.g. `b`, `r`).  Call lines read "↳ <call-site file>:<line> <callee>(args)".
        hsrc = open(os.path.join(VERIF, 'harness', inst.harness)).read() + '\n' + '\n'.join(inst.files.values())
        hfuncs = set(re.findall(r'^[A-Za-z_][\w \t\*]*?\b([A-Za-z_]\w*)\s*\([^;{]*\)\s*\{', hsrc, re.M)) | {'main'}
        stack = [True]
        for line in body.split('\n'):
            if line.startswith('\u21b3'):
                mm = re.match(r'\u21b3 \S+ ([A-Za-z_]\w*)\(', line)
                stack.append(mm.group(1) in hfuncs if mm else stack[-1])
                continue
            if line.startswith('\u21b5'):            # return
                if len(stack) > 1:
                    stack.pop()
                continue
            m = re.match(r'^\s*(?:\d+: )?([A-Za-z_]\w*)(?:\[(\d+)l?\])?=.*\(([01 ]+)\)\s*$', line)
            if not m:
                continue
            n, idx, bits = m.group(1), m.group(2), m.group(3).replace(' ', '')
            if n in names and stack[-1]:
                key = n if idx is None else '%s[%s]' % (n, idx)
                vals[key] = int(bits, 2)
        cex['property'] = pid
        cex['values'] = vals
        cex['trace_ok'] = r.returncode == 10
        return cex

    def _nd_names(self, inst):
        src = open(os.path.join(VERIF, 'harness', inst.harness)).read()
        # follow local includes of harness fragments
        for inc in re.findall(r'#include "(h_[\w.]+|common[\w.]*|[\w]+\.inc)"', src):
            p = os.path.join(VERIF, 'harness', inc)
            if os.path.exists(p):
                src += open(p).read()
        for txt in inst.files.values():
            src += txt
        return set(re.findall(r'\bND(?:_ARR)?\(\s*[^,()]+(?:\([^)]*\))?[^,]*,\s*(\w+)', src))

    def replay(self, inst, cex, outdir):
        """Compile the same harness natively against the unmodified sources and run it on the counterexample."""
        os.makedirs(outdir, exist_ok=True)
        with open(os.path.join(outdir, 'input.txt'), 'w') as f:
            for k, v in sorted(cex['values'].items()):
                f.write('%s %x\n' % (k, v))
        json.dump({'instance': inst.name, 'harness': inst.harness, 'defs': inst.defs, 'units': inst.units,
                   'cbmc_property': cex.get('property'), 'values': {k: hex(v) for k, v in cex['values'].items()}},
                  open(os.path.join(outdir, 'input.json'), 'w'), indent=1)
        shutil.copy(os.path.join(VERIF, 'harness', inst.harness), os.path.join(outdir, 'replay.c'))
        for fn, txt in inst.files.items():
            open(os.path.join(outdir, fn), 'w').write(txt)
        exe = os.path.join(outdir, 'replay.bin')
        objs = [os.path.join(self.b.nat, u + '.o') for u in list(inst.units) + [x for x in inst.native_units if x not in inst.units]]
        san = ['-fsanitize=address,undefined', '-fno-sanitize-recover=all'] if inst.safety else []
        cmd = ['gcc', '-O0', '-g', '-w', '-fno-builtin'] + san + ['-DREPLAY', '-D' + GUARD, '-I', outdir, '-I', self.b.raw,
               '-I', os.path.join(VERIF, 'harness')] + _defs_args(inst.defs) + \
              [os.path.join(VERIF, 'harness', inst.harness), os.path.join(VERIF, 'harness', 'replay_rt.c')] + objs + ['-lm', '-o', exe]
        with open(os.path.join(outdir, 'run.sh'), 'w') as f:
            f.write('#!/bin/sh\n# rebuilds and re-runs the counterexample against the real (unrewritten) sources\n')
            f.write('# note: object files come from the verification build of /repo at hash %s\n' % self.b.hash)
            f.write(' '.join("'%s'" % c for c in cmd) + ' && VERIF_REPLAY_INPUT=%s/input.txt %s\n' % (outdir, exe))
        os.chmod(os.path.join(outdir, 'run.sh'), 0o755)
        r = sh(cmd)
        if r.returncode:
            return 'BUILD-ERROR', r.stderr[-3000:]
        env = dict(os.environ, VERIF_REPLAY_INPUT=os.path.join(outdir, 'input.txt'))
        try:
            r = subprocess.run([exe], capture_output=True, text=True, env=env, timeout=60, errors='replace')
        except subprocess.TimeoutExpired:
            return 'CONFIRMED', 'native replay does not terminate within 60 s (non-termination)'
        if r.returncode == 0:
            # the solver may have used the nondeterministic contents of a fresh allocation: repeat with glibc's allocator perturbation
            for pert in ('165', '85', '255'):
                try:
                    r2 = subprocess.run([exe], capture_output=True, text=True, env=dict(env, MALLOC_PERTURB_=pert), timeout=60, errors='replace')
                except subprocess.TimeoutExpired:
                    continue
                if r2.returncode not in (0, 77):
                    r = r2
                    open(os.path.join(outdir, 'run.sh'), 'a').write('# reproduces with MALLOC_PERTURB_=%s (dependence on uninitialised heap memory)\n' % pert)
                    break
        os.remove(exe)
        txt = (r.stdout + r.stderr)[-3000:]
        open(os.path.join(outdir, 'replay.out'), 'w').write('rc=%d\n%s' % (r.returncode, txt))
        if r.returncode == 0:
            return 'NOT-REPRODUCED', txt
        if r.returncode == 77:
            return 'ASSUME-FALSE', txt
        return 'CONFIRMED', 'rc=%d %s' % (r.returncode, txt)


# ---------------------------------------------------------------------------
# Known findings
# ---------------------------------------------------------------------------
def load_known(prop):
    out = []
    p = os.path.join(VERIF, 'known_findings.txt')
    if os.path.exists(p):
        for l in open(p):
            l = l.strip()
            m = re.match(r'finding:\s+property=(\S+)\s+instance=(\S+)\s+assertion=/(.*?)/\s+::\s*(.*)$', l)
            if m and m.group(1) == prop:
                out.append({'instance': re.compile(m.group(2)), 'assertion': re.compile(m.group(3)), 'what': m.group(4)})
    return out


# ---------------------------------------------------------------------------
# Check driver
# ---------------------------------------------------------------------------
def run_check(prop, tier, seed, meta, instances, build, level='model_checking', extra_cov=None, pre_results=None, partial=False):
    """Runs all instances 16-wide, handles witness twins / replay / known findings, writes evidence,
    prints VIOLATION / KNOWN-FINDING lines and returns the process exit status."""
    t0 = time.time()
    # instance names key the per-instance work directory, the result table and the known-findings match: two instances with one name
    # would share a directory (the first to pass removes it under the second) and one result would hide the other
    seen, dups = set(), set()
    for i in instances:
        k = re.sub(r'[^A-Za-z0-9_.+-]', '_', i.name)
        (dups if k in seen else seen).add(k)
    if dups:
        log('BROKEN: duplicate instance names in %s: %s' % (prop, ', '.join(sorted(dups))))
        return 2
    rn = Runner(build, prop, tier, seed)
    known = load_known(prop)
    rng = random.Random(seed)
    # witness twins: all in thorough, a seeded 1/3 (at least one per family) in quick
    fams = {}
    for i in instances:
        fams.setdefault(i.family, []).append(i)
    wit = set()
    for f, l in fams.items():
        ws = [i for i in l if i.witness]
        if not ws:
            continue
        if tier == 'thorough':
            wit.update(i.name for i in ws)
        else:
            k = min(len(ws), max(2, len(ws) // 3))
            wit.update(i.name for i in rng.sample(ws, k))
    byname = {i.name: i for i in instances}
    order = sorted(instances, key=lambda i: -i.timeout)
    # thorough tier: a wall-clock budget (VERIF_BUDGET_S, default 3 h).  Cheap instances first; what has not started when the budget is used up
    # is listed as not explored in the evidence (the verdict covers what was explored, and says so)
    budget = float(os.environ.get('VERIF_BUDGET_S', '10800')) if tier == 'thorough' else None
    if budget:
        order = sorted(instances, key=lambda i: i.timeout)

    def _one(i):
        if budget and time.time() - t0 > budget:
            return {'name': i.name, 'family': i.family, 'bound': i.bound, 'status': 'SKIPPED', 'failed': [], 'witness': None, 'detail': 'not started: thorough-tier budget used up'}
        return rn.run(i, i.name in wit)
    with ThreadPoolExecutor(JOBS) as ex:
        results = list(ex.map(_one, order))
    # a time-out under load says nothing about the code: non-optional instances without a verdict get one more run, alone (4 at a time)
    # and with twice the budget, before they are reported as inconclusive
    redo = [r['name'] for r in results if r['status'] == 'INCONCLUSIVE' and not byname[r['name']].optional and 'timeout' in (r.get('detail') or '')]
    if redo and len(redo) <= 24 and not (budget and time.time() - t0 > budget):
        for n in redo:
            byname[n].timeout *= 2
        with ThreadPoolExecutor(4) as ex:
            again = {r['name']: r for r in ex.map(lambda n: rn.run(byname[n], n in wit), redo)}
        for r in again.values():
            r['retried'] = True
        results = [again.get(r['name'], r) for r in results]
    violations, knownhits, broken = [], [], []
    replay_root = os.path.join(VERIF, 'replays', prop)
    shutil.rmtree(replay_root, ignore_errors=True)
    for r in results:
        inst = byname[r['name']]
        st = r['status']
        if inst.expect_fail is not None:
            # probe for a recorded finding: it must still fail, otherwise the entry is stale
            hit = st == 'FAIL' and any(re.search(inst.expect_fail, m) for _, m in r['failed'])
            r['probe'] = 'still-fails' if hit else 'no-longer-fails'
            if st in ('FAIL', 'PASS'):
                r['status'] = 'PROBE'
            continue
        if st == 'FAIL':
            cex = r.get('cex') or {}
            rd = os.path.join(replay_root, re.sub(r'[^A-Za-z0-9_.+-]', '_', r['name']))
            msgs = [m for _, m in r['failed']]
            unwind_only = all('unwinding assertion' in m for m in msgs)
            if inst.replay and cex.get('trace_ok'):
                verdict, detail = rn.replay(inst, cex, rd)
            else:
                verdict, detail = 'NO-REPLAY', 'no native replay for this instance (trace_ok=%s)' % cex.get('trace_ok')
                os.makedirs(rd, exist_ok=True)
                json.dump({'instance': r['name'], 'failed': msgs, 'cex': {k: (hex(v) if isinstance(v, int) else v) for k, v in cex.get('values', {}).items()}},
                          open(os.path.join(rd, 'input.json'), 'w'), indent=1)
            r['replay'] = verdict
            r['replay_detail'] = detail[-600:]
            kf = [k for k in known if k['instance'].search(r['name']) and all(k['assertion'].search(m) for m in msgs)]
            if verdict in ('CONFIRMED', 'NO-REPLAY') and not (verdict == 'NO-REPLAY' and inst.replay):
                if kf:
                    knownhits.append((r, kf[0]))
                    r['status'] = 'KNOWN'
                else:
                    violations.append((r, rd))
            else:
                broken.append((r, 'counterexample did not replay natively (%s): %s' % (verdict, detail[-300:])))
                r['status'] = 'ENCODING-MISMATCH'
        elif st == 'INCONCLUSIVE' and inst.optional:
            r['status'] = 'NO-VERDICT(optional)'
        elif st in ('VACUOUS', 'ERROR', 'INCONCLUSIVE'):
            broken.append((r, '%s: %s' % (st, (r.get('detail') or '')[-800:])))
    wall = time.time() - t0
    # ---------------- evidence ----------------
    npass = sum(1 for r in results if r['status'] == 'PASS')
    nwit = sum(1 for r in results if r.get('witness') == 'reachable')
    queries = sum((r.get('nprops') or 0) for r in results)
    samples = []
    for f, l in sorted(fams.items()):
        rr = [r for r in results if r['family'] == f]
        for r in rr[:2]:
            samples.append({'instance': r['name'], 'bound': r['bound'], 'status': r['status'], 'solver': r.get('backend'),
                            'assertions_decided': r.get('nprops'), 'time_s': r.get('time_s'), 'witness_twin': r.get('witness')})
    cov = {
        'evaluations': max(queries, 1),
        'distinct_nontrivial': max(nwit, 0),
        'rule': 'evaluations = solver-decided assertions (CBMC properties incl. unwinding assertions) summed over instances; '
                'an instance is one concrete skeleton whose value inputs are symbolic; distinct_nontrivial = instances whose '
                'WITNESS twin (same harness ending in assert(0)) was run and came back violated, i.e. the assertions are reachable under the assumptions',
        'samples': samples[:12],
        'instances': len(results),
        'instances_passed': npass,
        'instances_by_family': {f: len(l) for f, l in fams.items()},
        'witness_twins_reachable': nwit,
        'solver_seconds': round(rn.solver_s, 1),
        'peak_rss_mb': rn.peak_rss_kb // 1024,
        'inconclusive': [r['name'] for r in results if r['status'] in ('INCONCLUSIVE', 'NO-VERDICT(optional)')],
        'not_explored_budget': [r['name'] for r in results if r['status'] == 'SKIPPED'],
        'known_findings_hit': [k['what'] for _, k in knownhits],
        'finding_probes': {r['name']: r.get('probe') for r in results if 'probe' in r},
        'source_hash': build.hash,
        'unionfix': {k: build.info.get(k) for k in ('unionfix_sites', 'unionfix_macro_sites', 'hoist_basic_sites', 'unionfix_difftest')},
        'functions_encoded': meta.get('functions', []),
        'bounds': meta.get('bounds', {}),
        'outside_claim': meta.get('outside', []),
        'exhaustive': False,
    }
    if extra_cov:
        cov.update(extra_cov)
    ev = {
        'property_id': prop, 'tier': tier, 'seed': seed, 'level': level, 'coverage': cov,
        'assumptions': meta.get('assumptions', []) + [
            'CBMC 6.11 front end/symex/bit-blasting and the SAT/SMT back ends are trusted',
            'harness stubs: ' + '; '.join(meta.get('stubs', [])),
            'malloc never fails (--no-malloc-may-fail); error()/fatal() end the path',
            'unionfix source rewrite (identity statement expressions) on the symbolically executed snapshot',
        ],
        'wall_s': round(wall, 1),
        'violations': len(violations),
    }
    # --only (debugging) runs and runs against a deliberately modified /repo (VERIF_SCRATCH_EVIDENCE, used by seedtest.py) never touch the evidence file
    evdir = os.path.join(VERIF, 'logs' if (partial or os.environ.get('VERIF_SCRATCH_EVIDENCE')) else 'evidence')
    os.makedirs(evdir, exist_ok=True)
    tmp = os.path.join(evdir, prop + '.json.tmp')
    json.dump(ev, open(tmp, 'w'), indent=1)
    os.rename(tmp, os.path.join(evdir, prop + '.json'))
    # ---------------- report ----------------
    for r in sorted(results, key=lambda r: r['name']):
        log('  %-44s %-18s %-7s %6.1fs %5dMB wit=%s %s' % (r['name'], r['status'], r.get('backend') or '', r.get('time_s') or 0,
                                                           r.get('rss_mb') or 0, r.get('witness'),
                                                           ';'.join(m for _, m in r['failed'])[:100] if r['failed'] else ''))
    for r, k in knownhits:
        print('KNOWN-FINDING: property=%s %s' % (prop, k['what']))
    rc = 0
    for r, rd in violations:
        print('VIOLATION property=%s replay=%s' % (prop, rd))
        log('    instance %s failed: %s ; replay: %s %s' % (r['name'], r['failed'], r.get('replay'), r.get('replay_detail', '')[:300]))
        rc = 1
    if broken:
        for r, why in broken:
            log('BROKEN %s: %s' % (r['name'], why))
        if rc == 0:
            rc = 2
    print('%s %s: %d instances, %d passed, %d witness twins reachable, %d assertions decided, %d violations, %d known, %d broken, %.0fs'
          % (prop, tier, len(results), npass, nwit, queries, len(violations), len(knownhits), len(broken), wall))
    if rc == 0 or os.environ.get('VERIF_KEEP') is None:
        rn.cleanup()
    return rc
