#!/usr/bin/env python3
"""unionfix: semantics-preserving rewrite of a *snapshot* of cproc's sources.

CBMC 6.11 mis-evaluates a chained dereference through a union member
(`e->u.binary.l->type`): its value-set analysis loses the pointer inside the
byte_extract of the union.  `t = e->u.binary.l; t->type` is evaluated
correctly.  This tool wraps every rvalue read of a pointer whose MemberExpr
chain passes through a union in an identity statement expression

    VERIF_ID(x)  ==  ({ __typeof__(x) verif_t_ = (x); verif_t_; })

using clang's JSON AST for exact source ranges.  It never touches /repo; the
rewritten snapshot is only what CBMC symbolically executes, replays run on the
unmodified sources.  Guarded each run by (i) a differential run of the natively
built rewritten tree against the natively built original on test/*.c and
(ii) a CBMC self-test (harness/selftest_union.c).
"""
import json, subprocess, sys, os
from concurrent.futures import ThreadPoolExecutor

HDR = b'#define VERIF_ID(p) ({ __typeof__(p) verif_t_ = (p); verif_t_; })\n#line 1\n'


def rewrite_file(src, incdir):
    js = subprocess.run(['clang', '-Xclang', '-ast-dump=json', '-fsyntax-only', '-w', '-I', incdir, src],
                        capture_output=True, text=True).stdout
    ast = json.loads(js)
    parent_kind = {}

    def decls(n, rec=None):
        k = n.get('kind')
        if k == 'RecordDecl':
            rec = n.get('tagUsed')
        if k in ('FieldDecl', 'IndirectFieldDecl') and rec:
            parent_kind[n['id']] = rec
        for c in n.get('inner', []):
            decls(c, rec)
    decls(ast)
    edits = []
    macro_sites = 0
    mainfile = os.path.abspath(src)
    state = {'file': None}

    def loc_off(l):
        if 'expansionLoc' in l or 'spellingLoc' in l:
            return None
        return (l.get('offset'), l.get('tokLen', 0))

    def through_union(n):
        while n.get('kind') in ('ParenExpr',):
            n = n['inner'][0]
        while n.get('kind') == 'MemberExpr':
            fid = n.get('referencedMemberDecl')
            if parent_kind.get(fid) == 'union':
                return True
            if n.get('isArrow'):
                return False
            n = n['inner'][0]
            while n.get('kind') in ('ParenExpr',):
                n = n['inner'][0]
        return False

    def walk(n):
        nonlocal macro_sites
        l = n.get('loc', {})
        if 'file' in l:
            state['file'] = l['file']
        for sub in ('spellingLoc', 'expansionLoc'):
            if sub in l and 'file' in l[sub]:
                state['file'] = l[sub]['file']
        r = n.get('range', {})
        for e in ('begin', 'end'):
            l = r.get(e, {})
            if 'file' in l:
                state['file'] = l['file']
            for sub in ('spellingLoc', 'expansionLoc'):
                if sub in l and 'file' in l[sub]:
                    state['file'] = l[sub]['file']
        if (n.get('kind') == 'ImplicitCastExpr' and n.get('castKind') == 'LValueToRValue'
                and n.get('type', {}).get('qualType', '').rstrip().endswith('*')
                and state['file'] and os.path.abspath(state['file']) == mainfile):
            inner = n['inner'][0]
            if through_union(inner):
                b = loc_off(r['begin'])
                e = loc_off(r['end'])
                if b is None or e is None:
                    macro_sites += 1
                else:
                    edits.append((b[0], e[0] + e[1]))
        for c in n.get('inner', []):
            walk(c)
    walk(ast)
    s = open(src, 'rb').read()
    edits = sorted(set(edits))
    ins = []
    for b, e in edits:
        ins.append((b, 0, b'VERIF_ID('))
        ins.append((e, 1, b')'))
    out = bytearray()
    last = 0
    # closers before openers at equal positions
    for pos, kind, text in sorted(ins, key=lambda x: (x[0], -x[1])):
        out += s[last:pos] + text
        last = pos
    out += s[last:]
    open(src, 'wb').write(HDR + bytes(out))
    return len(edits), macro_sites


def hoist_basic(d):
    """Second rewrite (same purpose: CBMC constant propagation).  `struct type` keeps `issigned/iscomplex` of basic and enum types
    in the member `basic` of its union `u`.  CBMC does not simplify a read of `t->u.basic.issigned` through a pointer when the byte
    is non-zero (true), so every signedness test becomes a symbolic branch.  In the snapshot the member is moved out of the union
    (`ubasic`, a sibling of `u`) and all accesses are renamed.  Semantics-preserving unless code type-puns `u.basic` with another
    union member (it does not: basic/enum types never use the other members); guarded by the differential test run."""
    import re
    n = 0
    h = os.path.join(d, 'cc.h')
    s = open(h).read()
    pat = re.compile(r'(\tunion \{\n)(\t\tstruct \{\n\t\t\tbool issigned, iscomplex;\n\t\t\} basic;\n)')
    m = pat.search(s)
    if not m:
        raise RuntimeError('hoist_basic: struct type layout in cc.h not recognised')
    s = s[:m.start()] + '\tstruct {\n\t\tbool issigned, iscomplex;\n\t} ubasic;  /* hoisted out of the union by the verification snapshot */\n' + m.group(1) + s[m.end():]
    # Third rewrite: the tagged unions `u` of struct type / struct decl / struct expr become structs in the snapshot (their members then
    # occupy distinct storage).  A pointer read through `p->u.member.field` is otherwise a byte_extract that symex does not
    # constant-propagate.  Sound as long as no code writes one member of these unions and reads another (the unions are discriminated by
    # `kind`); the inner union `constant {u, i, f}` of struct expr, which IS used for punning, is left alone.  Guarded by the differential run.
    s, nunion = re.subn(r'(?m)^\tunion \{$', '\tstruct {  /* union in /repo; struct in the verification snapshot */', s)
    if nunion != 3:
        raise RuntimeError('hoist_basic: expected 3 top-level unions in cc.h, found %d' % nunion)
    open(h, 'w').write(s)
    # same for the cursor of the initializer parser (init.c: struct object { ... union { struct member *mem; size_t idx; } u; }): arrays use
    # idx, structs use mem, never both for one object
    ic = os.path.join(d, 'init.c')
    if os.path.exists(ic):
        t = open(ic).read()
        t2, k = re.subn(r'(?m)^\tunion \{\n(\t\tstruct member \*mem;\n\t\t[^\n]* idx;\n\t\} u;)', r'\tstruct {  /* union in /repo */\n\1', t)
        if k == 1:
            open(ic, 'w').write(t2)
    for f in sorted(os.listdir(d)):
        if f.endswith('.c') or f.endswith('.h'):
            p = os.path.join(d, f)
            t = open(p).read()
            t2, k = re.subn(r'\bu\.basic\.', 'ubasic.', t)
            if k:
                open(p, 'w').write(t2)
                n += k
    return n


def rewrite_dir(d, jobs=16):
    files = sorted(f for f in os.listdir(d) if f.endswith('.c'))
    with ThreadPoolExecutor(jobs) as ex:
        res = list(ex.map(lambda f: rewrite_file(os.path.join(d, f), d), files))
    return {f: r[0] for f, r in zip(files, res)}, sum(r[1] for r in res)


if __name__ == '__main__':
    sites, macros = rewrite_dir(sys.argv[1])
    print(sites, 'total', sum(sites.values()), 'macro-sites', macros)
