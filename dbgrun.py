#!/usr/bin/env python3
"""debug helper: prepare one instance and print its cbmc command (work dir kept under /var/tmp/cproc-verif/work-DBG-<pid>)
usage: dbgrun.py C07 quick 'initadd.old2.cont3' [backend]"""
import sys, importlib
sys.path[:0] = ['/verif/vlib', '/verif/props']
import core
prop, tier, name = sys.argv[1:4]
b = core.Build()
mod = importlib.import_module(prop.lower())
insts = [i for i in mod.instances(b, tier, 1) if i.name == name]
r = core.Runner(b, 'DBG', tier, 1)
(d, gbs), err = r._prepare(insts[0], False) if True else (None, None)
print('cd', d)
print(' '.join("'%s'" % a if ' ' in a else a for a in r._cbmc_cmd(insts[0], gbs, sys.argv[4] if len(sys.argv) > 4 else insts[0].backends[0])))
