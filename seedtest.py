#!/usr/bin/env python3
"""Confirm a seeded change and run the property's check against it.
usage: seedtest.py <seed-id> <property> <scratch-worktree-with-SEED> [--props C01,C03]   (never commits anything to /repo)"""
import json, os, shutil, subprocess, sys, time
sid, prop, wt = sys.argv[1:4]
props = [prop]
if len(sys.argv) > 5 and sys.argv[4] == '--props':
    props = sys.argv[5].split(',')
dst = '/verif/seeded/%s' % sid
os.makedirs(dst, exist_ok=True)
seed = os.path.join(wt, 'SEED')
if os.path.isdir(seed):
    for f in os.listdir(seed):
        s, d = os.path.join(seed, f), os.path.join(dst, f)
        if os.path.isdir(s):
            shutil.rmtree(d, ignore_errors=True); shutil.copytree(s, d)
        else:
            shutil.copy(s, d)
def sh(cmd, **kw):
    return subprocess.run(cmd, shell=True, capture_output=True, text=True, **kw)
meta = {'seed': sid, 'property': prop, 'ran': []}
recheck = not os.path.isdir(wt)          # worktree already removed: keep the recorded confirmation, re-run only our checks
if recheck:
    old = json.load(open(os.path.join(dst, 'meta.json')))
    meta = {k: old[k] for k in old if k not in ('checks', 'detected')}
    meta['ran'] = [r for r in old.get('ran', []) if r.startswith('scratch worktree')]
patch = os.path.join(dst, 'patch.diff')
if not recheck:
    # 1. confirmation in the scratch worktree
    r = sh('git checkout -q -- . && git apply %s && make -s 2>&1 | tail -2 && ./runtests 2>&1 | tail -1' % patch, cwd=wt)
    meta['with_change_tests'] = r.stdout.strip().split('\n')[-1]
    d1 = sh('sh %s/demo/run.sh %s' % (dst, wt), cwd=wt)
    meta['demo_with_change_rc'] = d1.returncode
    r = sh('git checkout -q -- . && make -s 2>&1 | tail -2 && ./runtests 2>&1 | tail -1', cwd=wt)
    meta['without_change_tests'] = r.stdout.strip().split('\n')[-1]
    d0 = sh('sh %s/demo/run.sh %s' % (dst, wt), cwd=wt)
    meta['demo_without_change_rc'] = d0.returncode
    meta['confirmed'] = ('170/170' in meta['with_change_tests'] and d1.returncode != 0 and d0.returncode == 0)
    meta['ran'].append('scratch worktree %s: git apply; make; ./runtests; demo/run.sh (rc %d with change, %d without)' % (wt, d1.returncode, d0.returncode))
# 2. our checks against /repo with the change applied (undone straight afterwards)
res = {}
# default: patch applied to /repo itself and undone afterwards.  VERIF_SEED_COPY=1 (used while a long background run is reading /repo): the
# same patch is applied to a scratch copy of /repo's working tree and the checks are pointed at it (VERIF_REPO)
copy = os.environ.get('VERIF_SEED_COPY') == '1'
repo = '/repo'
if copy:
    repo = '/var/tmp/seedrepo-%s' % sid
    shutil.rmtree(repo, ignore_errors=True)
    sh('rsync -a --exclude .git --exclude "*.o" /repo/ %s/' % repo)
st = sh('git -C /repo status --porcelain').stdout.strip()
assert st == '', '/repo not clean: ' + st
try:
    a = sh('git apply %s' % patch, cwd=repo) if copy else sh('git -C /repo apply %s' % patch)
    assert a.returncode == 0, a.stderr
    for p in props:
        t0 = time.time()
        r = sh('%sVERIF_SCRATCH_EVIDENCE=1 python3 /verif/run.py --property %s --tier quick' % ('VERIF_REPO=%s ' % repo if copy else '', p), cwd='/verif')
        viol = [l for l in r.stdout.split('\n') if l.startswith('VIOLATION')]
        res[p] = {'exit': r.returncode, 'violations': len(viol), 'first': viol[:3], 'wall_s': round(time.time() - t0), 'summary': r.stdout.strip().split('\n')[-1]}
        # which instances failed
        fails = [l.split()[0] for l in r.stderr.split('\n') if ' FAIL ' in l]
        res[p]['failing_instances'] = fails[:12]
finally:
    if copy:
        shutil.rmtree(repo, ignore_errors=True)
    else:
        sh('git -C /repo checkout -- .')
meta['checks'] = res
meta['detected'] = any(v['exit'] == 1 for v in res.values())
meta['ran'].append('scratch copy of /repo + git apply patch.diff; VERIF_REPO=<copy> python3 run.py --property P --tier quick; copy removed' if copy else 'git -C /repo apply patch.diff; python3 run.py --property P --tier quick; git -C /repo checkout -- .')
notes = os.path.join(dst, 'notes.md')
if os.path.exists(notes):
    txt = open(notes).read()
    meta['needs_to_manifest'] = txt[:1500]
json.dump(meta, open(os.path.join(dst, 'meta.json'), 'w'), indent=1)
print(json.dumps({k: meta[k] for k in ('seed', 'confirmed', 'detected', 'checks')}, indent=1)[:1800])
