#!/usr/bin/env python3
"""setup_cmd: nothing to fetch or build ahead of time; verifies that the tools the checks need are present."""
import shutil, sys
missing = [t for t in ('cbmc', 'goto-cc', 'goto-instrument', 'gcc', 'clang', 'rsync', 'objcopy', 'nm', 'make', 'z3') if not shutil.which(t)]
if missing:
    print('missing tools:', missing)
    sys.exit(1)
print('ok')
