#!/usr/bin/env python3
"""Entry point: python3 run.py --property C14 --tier quick|thorough
exit 0 = held on everything explored; 1 = VIOLATION line printed; 2 = machinery broken/inconclusive."""
import argparse, importlib, os, sys, traceback
sys.path.insert(0, os.path.join(os.path.dirname(os.path.abspath(__file__)), 'vlib'))
sys.path.insert(0, os.path.join(os.path.dirname(os.path.abspath(__file__)), 'props'))
import core


def main():
    ap = argparse.ArgumentParser()
    ap.add_argument('--property', required=True)
    ap.add_argument('--tier', default=os.environ.get('VERIF_TIER', 'quick'), choices=['quick', 'thorough'])
    ap.add_argument('--only', default=None, help='regex on instance names (debugging)')
    a = ap.parse_args()
    seed = int(os.environ.get('VERIF_SEED', '1'))
    mod = importlib.import_module(a.property.lower())
    try:
        build = core.Build()
    except Exception as e:
        core.log('BROKEN: build of /repo snapshot failed: %s' % e)
        traceback.print_exc()
        return 2
    if hasattr(mod, 'check'):
        return mod.check(build, a.tier, seed, a.only)
    insts = mod.instances(build, a.tier, seed)
    if a.only:
        import re
        insts = [i for i in insts if re.search(a.only, i.name)]
    return core.run_check(a.property, a.tier, seed, mod.META, insts, build, level=getattr(mod, 'LEVEL', 'model_checking'), partial=bool(a.only))


if __name__ == '__main__':
    sys.exit(main())
