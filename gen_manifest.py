#!/usr/bin/env python3
"""Regenerates /verif/MANIFEST.json from the table below (one entry per property that has a check;
everything else must be listed in NOT_APPLICABLE with its reason)."""
import json, os, subprocess

TECH = 'bounded symbolic execution of the real C units with CBMC 6.11 (SAT/SMT decided, unwinding assertions), witness twins, native replay of counterexamples'
TRUST = ('trusted: CBMC 6.11 front end/symex + MiniSat/z3, the reference oracle written in the harness, the listed environment stubs, '
         'gcc 12 as oracle of the parser-level families (layout, images, expression types, symbol tables, macro expansion), the unionfix rewrite of the symbolically executed snapshot (differentially tested each build); bounds are stated per family in the evidence file')

CHECKS = {
    'C02': ('translation_validation', 'DESIGN.md C02',
            'Function-wise only: for cproc\'s own leaf functions (utf8enc, utf8dec, utf16enc, isodigit x2, hash), extracted from the working tree, the IL produced by the real front end '
            '(what a stage-2 binary would execute) is proved equivalent to the function\'s C semantics (what stage 1 executes) for all inputs within the stated preconditions. '
            'The bootstrap fixed point itself is outside (no backend in the sandbox).'),
    'C03': ('model_checking', 'DESIGN.md C03',
            'IL class/definition rules asserted by an IL semantics on everything the back end lowers (operators, conversions, switch ladders, automatic initialisation), '
            'all builder call sequences up to the bound keep blocks well-terminated, data definitions have exactly the object size, jumps to undefined/duplicate labels are diagnosed.'),
    'C08': ('model_checking', 'DESIGN.md C08',
            'Structural half of the property: for struct definitions built by the real addmember (bit-field widths symbolic) the aggregate description printed by emittype, laid out '
            'with the backend rule, has the size, alignment, per-eightbyte register class and member offsets of the C type.'),
    'C09': ('model_checking', 'DESIGN.md C09',
            'declcommon/getlinkage as a step function over a fully symbolic tuple (kind, storage class, scope, visible prior declaration state, assembler labels) '
            'against a transcription of C11 6.2.2p3-7 and the redeclaration constraints; parser level: ~200 declaration histories of one function/object (storage class and inline combinations, '
            'block scope, thread-local, tentative) - the definitions handed to the emitter and their export flags equal the symbol table the platform compiler produces (nm).'),
    'C10': ('model_checking', 'DESIGN.md C10',
            'A catalogue of ~115 violating templates (token skeleton concrete) run through the real decl/stmt/expr code under CBMC: the diagnostic reached is the one for the '
            'violation is diagnosed (status 1 path through error()/fatal()) and that path is reachable; value-quantified constraint checks live in the C04/C05/C06/C14/C15 families.'),
    'C11': ('model_checking', 'DESIGN.md C11',
            'Token and scanner locations count physical lines/columns through splices and comments for all byte continuations (scan step + nextchar), error() prints the '
            'location it is given (symbolic line/col) and exits 1, catalogue violations on a line of their own are reported on that line.'),
    'C19': ('model_checking', 'DESIGN.md C19',
            'The functional harnesses re-run with CBMC bounds/pointer/overflow/division/shift checks, source assert()s and unwinding assertions (termination) and with real buffer '
            'growth: scanner on all first bytes, utf, tree, hash table, layout, data emission, character constants, designator stack, macro expansion with real deallocation, '
            'and unusual parser inputs that must end in output or a diagnostic (every assert() in cproc is an obligation).'),
    'C20': ('model_checking', 'DESIGN.md C20',
            'Twin runs of the constructors on symbolic arguments with symbolic heap garbage agree on every consumer-visible field; slices of the functional families re-run '
            '(their proofs quantify over all allocator contents and layouts).'),
    'C01': ('model_checking', 'DESIGN.md C01',
            'Instruction selection per operator: for each (operator, left type, right type) and each conversion the real mkbinaryexpr+funcexpr/convert lower '
            'operands of fully symbolic value; the emitted IL, executed by an IL semantics, equals the C value for every defined input (solver-decided), '
            'and obeys the IL class rules. In-memory translation validation: ~45 whole functions (control flow, calls with converted/variadic arguments, automatic initializers, bit-fields, struct copy) '
            'go through the real parser and lowering; their IL, executed on symbolic inputs, agrees with the same source compiled by the checker\'s C front end.'),
    'C04': ('model_checking', 'DESIGN.md C04',
            'For each (operator, type pair) and conversion the real eval() folds a tree with symbolic constant operands to exactly the carrier of the C value '
            '(which the C01 family shows equal to the run-time value); division by zero in a constant expression is diagnosed, never trapped.'),
    'C05': ('model_checking', 'DESIGN.md C05',
            'Type of every binary operator over all pairs of the 14 arithmetic types (right type symbolic) and bit-field operands of symbolic width/position, '
            'against a table generated from C11 6.3.1.1/6.3.1.8; constraint violations (non-integer operands of % << >> & ^ |) diagnosed; types of integer literals by base/suffix/symbolic magnitude; '
            'parser level: for ~225 expressions (conditional, pointer arithmetic, decay, sizeof, casts, assignments, promotions, conversions, literals, members with inherited qualifiers, _Generic, compound literals) '
            'typeof(E) is compatible with exactly the candidate types the platform compiler accepts.'),
    'C06': ('model_checking', 'DESIGN.md C06',
            'addmember over symbolic member sequences (type, bit-field-ness, width, named-ness, _Alignas) for struct/union/packed against an independent '
            'System V x86-64 layout model: every offset, bit position, size and alignment; parser level: ~40 struct/union definitions (zero-width/unnamed bit-fields, flexible arrays, alignas, unions) '
            'with sizeof/_Alignof/offsetof equal to the platform compiler\'s.'),
    'C07': ('model_checking', 'DESIGN.md C07',
            'emitdata: the printed items, decoded back to bytes, equal the image denoted by a sorted initializer list with symbolic offsets, bit positions, widths '
            'and values (size and alignment included); initadd: one step from an arbitrary valid list keeps exactly the initializers not covered by the new one; parser level: ~40 declarations with '
            'positional/designated/overriding/brace-elided/string/union initializers through the real parseinit and emitdata with every integer constant symbolic, image equal to the platform compiler\'s '
            '(bit scatter map); invalid initializers diagnosed.'),
    'C12': ('model_checking', 'DESIGN.md C12',
            'Symbolic kernels: stringize on token sequences with symbolic kinds/spellings/space flags against C11 6.10.3.2p2, macroequal on two symbolic macro definitions against 6.10.3p2. '
            'Expansion: the real define/undef/directive/expand/expandfunc/ctxnext/peekparen/keyword executed under CBMC on ~40 concrete macro sets and ~18 violating ones (raw tokens from a '
            'python tokeniser replace scan.c); the delivered token sequence equals that of the platform preprocessor (gcc -E). Structure concrete in this half: not a quantification over macro sets.'),
    'C13': ('model_checking', 'DESIGN.md C13',
            'Every token start (257 concrete first bytes, second byte concrete too where it re-dispatches) x all continuations up to N bytes: the real scanner '
            'step agrees with an independent C11 6.4 reference lexer on kind, spelling, consumed length, residual stream and location; nextchar is the phase-2 '
            'splice filter for all byte strings <= N; keyword() maps exactly the documented spellings for all identifiers <= 14 bytes. One-step + composition, solver-decided.'),
    'C14': ('model_checking', 'DESIGN.md C14',
            'utf8dec on all 2^32 four-byte windows x n, utf8enc/utf16enc on all scalar values against RFC 3629; decodechar/stringconcat/character constants on symbolic '
            'source bytes against a reference decoder, per prefix and target; string literals (stringconcat/decodechar/encodechar*) on concrete item shapes with symbolic contents for all prefixes and two-token concatenations.'),
    'C15': ('model_checking', 'DESIGN.md C15',
            'One treeinsert step from every AVL shape (symbolic 64-bit keys) re-establishes order/balance/heights and the new flag; for every shape the real '
            'funcswitch ladder, executed by an IL semantics, reaches exactly the case whose converted constant equals a symbolic controlling value, for all four promoted types.'),
    'C16': ('model_checking', 'DESIGN.md C16',
            'One mapput step from an arbitrary valid open-addressing table with unconstrained hash values (all collision/wrap patterns, with and without rehash); '
            'keyequal; innermost-declaration lookup over a symbolic placement of names in 3 scopes; string pool never merges literals that differ in size or bytes.'),
    'C17': ('model_checking', 'DESIGN.md C17',
            'driver.c:main on ~90 generated option shapes (mode flags x input types, every forwarding option attached/detached, -x, -o, -W?, payloads, usage errors) with symbolic '
            'argument characters: every spawned command (tool, base command, target flag, forwarded options in order, input/output names, pipeline wiring) equals the expectation '
            'of a model of cproc(1); invalid combinations exit 2 before anything is spawned.'),
    'C18': ('model_checking', 'DESIGN.md C18',
            'buildobj/buildexe of the real driver.c under a symbolic fault schedule: failing spawn index, every child status, and the order wait() reports children '
            'are solver variables; asserts exit status, SIGTERM to survivors, reaping of every child, removal of outputs/temporaries, no wait() without a child.'),
}
THOROUGH = set(CHECKS)

NOT_APPLICABLE = {
    'C02_unused': 'needs a stage-2 compiler: there is no QBE backend, assembler or linker in the sandbox, and a whole-program symbolic run of the compiler on its own sources is far beyond bounded symbolic checking; the function-wise translation validation sketched in DESIGN.md (emitted IL of cproc\'s own leaf functions vs their C semantics) was not built in this round',
}


def main():
    here = os.path.dirname(os.path.abspath(__file__))
    props = [json.loads(l)['id'] for l in open(os.path.join(here, 'properties.jsonl'))]
    commits = subprocess.run(['git', '-C', '/repo', 'log', '--format=%h %s'], capture_output=True, text=True).stdout.split('\n')
    hooks = [c.split()[0] for c in commits if c.split()[1:2] == ['verif']]
    checks = []
    for pid in props:
        if pid not in CHECKS:
            continue
        lvl, ref, text = CHECKS[pid]
        c = {
            'property_id': pid,
            'quick_cmd': 'python3 run.py --property %s --tier quick' % pid,
            'evidence_file': '/verif/evidence/%s.json' % pid,
            'engine': 'E1-unit-symbolic',
            'level_claimed': {'category': lvl, 'text': text, 'design_ref': ref},
            'level_note': TRUST,
            'technique': TECH if lvl == 'model_checking' else 'in-memory translation validation: real front end symbolically executed by CBMC, emitted IL interpreted on symbolic inputs, compared with CBMC\'s C semantics of the same source text (SAT decided)',
            'replay_cmd_template': 'sh {path}/run.sh',
        }
        if pid in THOROUGH:
            c['thorough_cmd'] = 'python3 run.py --property %s --tier thorough' % pid
        checks.append(c)
    na = [{'property_id': p, 'reason': NOT_APPLICABLE.get(p, 'check not built yet in this round (see DESIGN.md); no claim is made')}
          for p in props if p not in CHECKS]
    m = {
        'version': 1,
        'setup_cmd': 'python3 /verif/setup.py',
        'hooks': {
            'guard': 'CPROC_VERIF',
            'enable': "checks compile a snapshot of /repo's working tree with -DCPROC_VERIF (goto-cc for CBMC, gcc for native replays and the cproc-qbe binary)",
            'baseline_off_cmd': 'cd /repo && make -s all && ./runtests',
            'source_commits': hooks,
            'add_only': True,
        },
        'engines': [
            {'name': 'E1-unit-symbolic', 'path': '/verif/vlib/core.py', 'serves_properties': [p for p in props if p in CHECKS and CHECKS[p][0] == 'model_checking'],
             'kind_free_text': 'bounded symbolic execution of the real translation units with CBMC 6.11 (goto-cc build of a snapshot of /repo), SAT/SMT decided, witness twins, native replay'},
        ],
        'checks': checks,
        'not_applicable': na,
        'notes': 'All checks: python3 run.py --property <id> --tier quick|thorough; exit 0 held / 1 VIOLATION / 2 machinery broken or inconclusive. Fixed defects are listed in known_findings.txt.',
    }
    json.dump(m, open(os.path.join(here, 'MANIFEST.json'), 'w'), indent=1)
    print('MANIFEST: %d checks, %d not_applicable' % (len(checks), len(na)))


if __name__ == '__main__':
    main()
