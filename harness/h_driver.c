/* C18: driver.c pipeline supervision under a symbolic fault schedule.
 * MODE 1: buildobj() for one input with the concrete stage set STAGES (+LINKBIT for the temporary-object case);
 *         symbolic: which spawn fails, every child's wait status, the order in which wait() reports children.
 * MODE 2: buildexe() with two inputs; symbolic: input kinds, linker spawn failure, linker status.
 * Unit included: driver.c (its main renamed); linked: util.  All process primitives are stubs (listed in evidence). */
#include "common.h"
#define main driver_main
#include "driver.c"
#undef main
#ifndef STAGES
#define STAGES (1<<PREPROCESS|1<<COMPILE|1<<CODEGEN|1<<ASSEMBLE)
#endif
#define MAXCH 5
static pid_t nextpid = 100; static int nspawn, spawn_fail_at = -1;
static pid_t live[MAXCH]; static int nlive; static bool killed[MAXCH]; static int nkilled_calls;
static int nunlink; static const char *unlinked[4];
static bool any_fail, first_failure_seen; static int live_at_first_failure, killed_after_first_failure;
static int nstages_expected, expect_nunlink;
static char *the_output; static bool in_buildexe;
static int exe_status; static bool exe_spawn_fails; static bool expect_unlink[2]; static const char *expect_name[2];

int posix_spawnp(pid_t *pid, const char *file, const posix_spawn_file_actions_t *fa, const posix_spawnattr_t *at, char *const argv[], char *const envp[]) {
	if (in_buildexe) { if (exe_spawn_fails) return 2; *pid = 500; return 0; }
	if (nspawn++ == spawn_fail_at) { any_fail = true; if (!first_failure_seen) { first_failure_seen = true; live_at_first_failure = nlive; } return 2; }
	CHECK(nlive < MAXCH, "at most one child per stage");
	*pid = nextpid++; live[nlive] = *pid; killed[nlive] = false; nlive++; return 0;
}
int posix_spawn_file_actions_init(posix_spawn_file_actions_t *a) { return 0; }
int posix_spawn_file_actions_destroy(posix_spawn_file_actions_t *a) { return 0; }
int posix_spawn_file_actions_adddup2(posix_spawn_file_actions_t *a, int x, int y) { return 0; }
int pipe(int fd[2]) { fd[0] = 10; fd[1] = 11; return 0; }
int fcntl(int fd, int cmd, ...) { return 0; }
int close(int fd) { return 0; }
int mkstemp(char *t) { return 7; }
int kill(pid_t p, int sig) {
	CHECK(sig == SIGTERM, "remaining stages are terminated with SIGTERM");
	for (int i = 0; i < nlive; i++) if (live[i] == p && !killed[i]) { killed[i] = true; killed_after_first_failure++; }
	return 0;
}
int unlink(const char *p) { if (nunlink < 4) unlinked[nunlink] = p; nunlink++; return 0; }
char *strsignal(int s) { return "signal"; }
void warn(const char *fmt, ...) {}
void fatal(const char *fmt, ...) {
	if (in_buildexe) {
		/* an abnormal end of the link step (linker cannot be started) must still have removed the temporaries */
		for (int i = 0; i < 2; i++) if (expect_unlink[i]) {
			bool done = false; for (int j = 0; j < nunlink && j < 4; j++) if (unlinked[j] == expect_name[i]) done = true;
			CHECK(done, "temporary objects are removed even when the linker cannot be started");
		}
		PATH_END();
	}
	CHECK(0, "fatal() reached in buildobj under successful environment calls"); PATH_END();
}
void *xmalloc(size_t n) { void *p = malloc(n); ASSUME(p != 0); return p; }
void exit(int c) {
	if (in_buildexe) {
		bool ok = !exe_spawn_fails && WIFEXITED(exe_status) && WEXITSTATUS(exe_status) == 0;
		CHECK(c == !ok, "link step: exit status 0 iff the linker exited with 0");
		for (int i = 0; i < 2; i++) {
			bool done = false; for (int j = 0; j < nunlink && j < 4; j++) if (unlinked[j] == expect_name[i]) done = true;
			CHECK(done == expect_unlink[i], "exactly the temporary (non-object) inputs are removed after linking, success or not");
		}
		PATH_END();
	}
	CHECK(c == 1, "a failed pipeline exits with status 1");
	CHECK(any_fail, "the driver gives up only if a stage failed or could not be started");
	CHECK(nlive == 0, "every started child has been reaped before exiting");
	CHECK(killed_after_first_failure == live_at_first_failure, "every child still running at the first failure was sent SIGTERM");
	if (the_output) CHECK(nunlink == 1 && unlinked[0] == the_output, "the named output of the failed pipeline is removed");
	else CHECK(nunlink == expect_nunlink && (nunlink == 0 || unlinked[0] != 0), "the derived output / temporary object of the failed pipeline is removed; nothing when writing to standard output");
	PATH_END();
}
static int status_of(int kind, int v) {   /* encode with the platform's W* layout */
	if (kind == 0) return (v & 0xff) << 8;          /* exited(v) */
	return (v & 0x7f) ? (v & 0x7f) : 9;             /* signalled */
}
static int wait_pick[MAXCH], wait_kind[MAXCH], wait_val[MAXCH], nwaits;
static bool kill_calls_none(void) { for (int i = 0; i < MAXCH; i++) if (killed[i]) return false; return killed_after_first_failure == 0; }
pid_t wait(int *status) {
	CHECK(nlive > 0, "wait() is only called while a child is outstanding (no hang)");
	if (nlive <= 0) PATH_END();
	int pick = wait_pick[nwaits < MAXCH ? nwaits : 0], kind = wait_kind[nwaits < MAXCH ? nwaits : 0], val = wait_val[nwaits < MAXCH ? nwaits : 0];
	nwaits++;
	ASSUME(pick >= 0 && pick < nlive);
	pid_t p = live[pick];
	int st = status_of(kind & 1, val);
	if (killed[pick]) { /* a terminated child reports the signal, or an earlier exit of its own */ }
	bool ok = WIFEXITED(st) && WEXITSTATUS(st) == 0;
	if (!ok) { any_fail = true; if (!first_failure_seen) { first_failure_seen = true; live_at_first_failure = nlive - 1; } }
	for (int j = pick; j + 1 < nlive; j++) { live[j] = live[j + 1]; killed[j] = killed[j + 1]; }
	nlive--;
	*status = st;
	return p;
}
pid_t waitpid(pid_t pid, int *status, int opts) { CHECK(in_buildexe && pid == 500, "waitpid only for the linker"); *status = exe_status; return pid; }

int main(void) {
	static char *tool[] = {"tool", 0};
	argv0 = "cproc";
	for (int i = 0; i < 5; i++) { arrayaddbuf(&stages[i].cmd, tool, sizeof(char *)); stages[i].cmdbase = stages[i].cmd.len; }
#if MODE == 1
	ND_ARR(int, wpick, MAXCH); ND_ARR(int, wkind, MAXCH); ND_ARR(int, wval, MAXCH);
	for (int i = 0; i < MAXCH; i++) { wait_pick[i] = wpick[i]; wait_kind[i] = wkind[i]; wait_val[i] = wval[i]; }
	ND(int, fail_at);
	spawn_fail_at = fail_at;
	static char name[] = "a.c";
	struct input in = {.name = name, .filetype = C, .stages = STAGES};
#if OUTKIND == 0
	char *out = NULL; expect_nunlink = (STAGES & (1<<LINK|1<<ASSEMBLE|1<<CODEGEN|1<<COMPILE)) ? 1 : 0;
#elif OUTKIND == 1
	static char outname[] = "out.o"; char *out = outname; the_output = out;
#else
	static char dash[] = "-"; char *out = dash;
#endif
	nstages_expected = __builtin_popcount(STAGES & ~(1 << LINK));
	/* the output name the driver derives itself (temporary object, or changed suffix) is whatever it passes to unlink */
	buildobj(&in, out);
	WITNESS_POINT();
	CHECK(!any_fail, "buildobj returns normally only if every stage was started and succeeded");
	CHECK(nspawn == nstages_expected && nlive == 0, "all stages were started and reaped");
	CHECK(nunlink == 0, "the output is kept on success");
	CHECK(kill_calls_none(), "no signal is sent on success");
#if OUTKIND == 1
	CHECK(in.name == out, "the input is replaced by its output for the link step");
#endif
#else
	ND(bool, spawnfails); ND(int, kind); ND(int, val); ND(bool, obj0); ND(bool, obj1);
	in_buildexe = true; exe_spawn_fails = spawnfails; exe_status = status_of(kind & 1, val);
	static char n0[] = "/tmp/cproc-a", n1[] = "/tmp/cproc-b";
	struct input ins[2] = {{.name = n0, .filetype = obj0 ? OBJ : C}, {.name = n1, .filetype = obj1 ? OBJ : C}};
	expect_unlink[0] = !obj0; expect_unlink[1] = !obj1; expect_name[0] = n0; expect_name[1] = n1;
	buildexe(ins, 2, "a.out");
	CHECK(0, "buildexe never returns");
#endif
	return 0;
}
