/* C16: map.c:keyequal and mapkey/hash: keys are equal iff same length and bytes (given equal hashes for equal strings). */
#include "common.h"
#include "map.c"
void fatal(const char *fmt, ...) { PATH_END(); }
void *xreallocarray(void *b, size_t n, size_t m) { void *p = malloc(n * m); ASSUME(p != 0); return p; }
#ifndef L
#define L 4
#endif
int main(void) {
	ND_ARR(unsigned char, a, L); ND_ARR(unsigned char, b, L); ND(size_t, la); ND(size_t, lb);
	ASSUME(la <= L && lb <= L);
	ND(unsigned long, ha); ND(unsigned long, hb);
	struct mapkey ka = {ha, a, la}, kb = {hb, b, lb};
	bool same = la == lb;
	for (size_t i = 0; i < L; i++) if (i < la && i < lb && a[i] != b[i]) same = false;
	WITNESS_POINT();
	if (same) ASSUME(ha == hb);     /* the hash is a function of the name (mapkey: FNV-1a over the bytes) */
	CHECK(keyequal(&ka, &kb) == (same && ha == hb), "two names are the same key iff they have the same length and bytes");
	/* an adversarial hash collision between different names must not make them equal */
	kb.hash = ka.hash;
	CHECK(keyequal(&ka, &kb) == same, "a hash collision alone never identifies two names");
	return 0;
}
