/* Parser-level harness: a concrete token skeleton (tokens.inc, generated from a C snippet by props/parselib.py) is fed to the real
 * decl()/stmt()/expr() through a token feeder that replaces pp.c; selected literal values may be symbolic (SYM slots).
 * Units linked: decl stmt expr eval init type scope attr map util targ tree utf token qbe.  Used by C09 C10 C03 C19 C11 instances.
 * -DEXPECT_ERROR=0|1, -DRECORD: emitfunc/emitdata are replaced by recorders (symbol table view, C09). */
#include "common.h"
#include "util.h"
#include "cc.h"
enum ppflags ppflags;
struct token tok;
#define MAXTOK 320
static struct token feed[MAXTOK]; static int nfeed, fpos;
static char *dup(const char *s) { size_t n = strlen(s) + 1; char *p = malloc(n); ASSUME(p != 0); memcpy(p, s, n); return p; }
static void push(enum tokenkind k, const char *lit, unsigned line) {
	feed[nfeed].kind = k; feed[nfeed].lit = lit ? dup(lit) : 0; feed[nfeed].loc.file = "<h>"; feed[nfeed].loc.line = line; feed[nfeed].loc.col = nfeed + 1; nfeed++;
}
void next(void) { if (fpos < nfeed) tok = feed[fpos++]; else { tok.kind = TEOF; tok.lit = 0; } }
bool consume(int kind) { if (tok.kind != kind) return false; next(); return true; }
char *expect(enum tokenkind kind, const char *msg) { char *lit = tokencheck(&tok, kind, msg); next(); return lit; }
bool peek(int kind) {
	if (fpos < nfeed ? feed[fpos].kind == kind : kind == TEOF) { next(); next(); return true; }
	return false;
}
void ppinit(void) {}
static int nerr; static struct location errloc;
#ifndef EXPECT_ERROR
#define EXPECT_ERROR 0
#endif
void error(const struct location *loc, const char *fmt, ...) {
	nerr++; errloc = *loc;
	CHECK(EXPECT_ERROR, "a valid translation unit is accepted");
#ifdef ERRMSG
	{ static const char want[] = ERRMSG; bool same = true; for (unsigned i = 0; i + 1 < sizeof want; i++) if (fmt[i] != want[i]) { same = false; break; }
	  CHECK(same, "the diagnostic is the one for this constraint"); }
#endif
#if defined(ERRLINE)
	CHECK(loc->line == ERRLINE, "diagnostic names the line of the offending construct");
#endif
#ifdef WITNESS
	CHECK(0, "witness: end of harness reachable");
#endif
	PATH_END();
}
#ifdef EXPECT_FATAL
/* documented-unsupported features reported through fatal() (non-zero exit, message on stderr) */
void fatal(const char *fmt, ...) {
	{ static const char want[] = ERRMSG; bool same = true; for (unsigned i = 0; i + 1 < sizeof want; i++) if (fmt[i] != want[i]) { same = false; break; }
	  CHECK(same, "the diagnostic is the one for this unsupported feature"); }
#ifdef WITNESS
	CHECK(0, "witness: end of harness reachable");
#endif
	PATH_END();
}
#else
void fatal(const char *fmt, ...) { CHECK(0, "fatal()/internal error reached"); PATH_END(); }
#endif
void *xmalloc(size_t n) { void *p = malloc(n); ASSUME(p != 0); return p; }
/* typed pools (CBMC only): pointers stored into the byte arrays malloc/realloc model are read back as unsimplified byte_extracts, which
 * turns every scope lookup and instruction walk symbolic; hash-table key/value arrays and instruction arrays get typed objects instead */
#ifndef REPLAY
static struct mapkey kpool[16][64]; static void *vpool[16][64]; static int nkp, nvp;
static void *ipool[48][32]; static int nip;
void *xreallocarray(void *b, size_t n, size_t m) {
	if (!b && m == sizeof(struct mapkey) && n <= 64 && nkp < 16) return kpool[nkp++];
	if (!b && m == sizeof(void *) && n <= 64 && nvp < 16) return vpool[nvp++];
	if (b) PATH_END();          /* table growth beyond 64 entries is outside these skeletons */
	void *p = malloc(n * m); ASSUME(p != 0); return p;
}
void *realloc(void *p, size_t n) { if (p || n > sizeof ipool[0] || nip >= 48) PATH_END(); return ipool[nip++]; }
#else
void *xreallocarray(void *b, size_t n, size_t m) { void *p = realloc(b, n * m); ASSUME(p != 0); return p; }
#endif
int printf(const char *fmt, ...) { return 0; }
int puts(const char *s) { return 0; }
int fputs(const char *s, FILE *f) { return 0; }
int putchar(int c) { return c; }
int fputc(int c, FILE *f) { return c; }
#ifdef RECORD
/* symbol-table view: what gets defined, with which linkage */
#define MAXREC 8
static struct { struct decl *d; int isfunc; int global; } rec[MAXREC]; static int nrec;
void emitfunc(struct func *f, bool global) { extern struct decl *verif_funcdecl(struct func *); if (nrec < MAXREC) { rec[nrec].d = 0; rec[nrec].isfunc = 1; rec[nrec].global = global; } nrec++; }
void emitdata(struct decl *d, struct init *i) { if (nrec < MAXREC) { rec[nrec].d = d; rec[nrec].isfunc = 0; rec[nrec].global = d->linkage == LINKEXTERN; } nrec++; }
#endif
#ifndef REPLAY
/* CBMC has no model of strtoull/strtod: small reference implementations (prefix 0x/0b handled by the caller's base argument) */
unsigned long long strtoull(const char *s, char **end, int base) {
	unsigned long long v = 0; const char *p = s;
	if (base == 16 && p[0] == '0' && (p[1] == 'x' || p[1] == 'X')) p += 2;
	for (int i = 0; i < 24; i++) {
		int c = *p, d;
		if (c >= '0' && c <= '9') d = c - '0'; else if (c >= 'a' && c <= 'f') d = c - 'a' + 10; else if (c >= 'A' && c <= 'F') d = c - 'A' + 10; else break;
		if (d >= base) break;
		v = v * base + d; p++;
	}
	if (end) *end = (char *)p;
	return v;
}
char *strpbrk(const char *s, const char *accept) {
	for (int i = 0; i < 40 && s[i]; i++) for (int j = 0; j < 8 && accept[j]; j++) if (s[i] == accept[j]) return (char *)s + i;
	return 0;
}
void free(void *p) {}      /* pooled objects are static; releasing memory is irrelevant to these obligations */
double strtod(const char *s, char **end) {
	double v = 0, scale = 1; const char *p = s; bool frac = false;
	for (int i = 0; i < 24; i++) {
		int c = *p;
		if (c >= '0' && c <= '9') { if (frac) { scale /= 10; v += (c - '0') * scale; } else v = v * 10 + (c - '0'); p++; }
		else if (c == '.' && !frac) { frac = true; p++; }
		else break;
	}
	if (end) *end = (char *)p;
	return v;
}
#endif
#include "tokens.inc"     /* static void feed_tokens(void) { push(...); ... }  and optional  static void checks(void) */
int main(void) {
	targinit(TARGETNAME);
	feed_tokens();
	next();
	scopeinit();
	while (tok.kind != TEOF) {
		if (!decl(&filescope, NULL)) {
			if (tok.kind == TSEMICOLON) error(&tok.loc, "unexpected ';' at top-level");
			error(&tok.loc, "expected declaration or function definition");
		}
	}
	emittentativedefns();
#ifndef WITNESS_IN_ERROR
	WITNESS_POINT();
#endif
	CHECK(!EXPECT_ERROR, "a constraint violation / unsupported feature is diagnosed, not accepted");
	checks();
	return 0;
}
