/* Parser-level harness: a concrete token skeleton (tokens.inc, generated from a C snippet by props/parselib.py) is fed to the real
 * decl()/stmt()/expr() through a token feeder that replaces pp.c; selected literal values may be symbolic (SYM slots).
 * Units linked: decl stmt expr eval init type scope attr map util targ tree utf token qbe.  Used by C09 C10 C03 C19 C11 instances.
 * -DEXPECT_ERROR=0|1, -DRECORD: emitfunc/emitdata are replaced by recorders (symbol table view, C09). */
#include "common.h"
#include "util.h"
#include "cc.h"
enum ppflags ppflags;
struct token tok;
#ifndef MAXTOK
#define MAXTOK 320
#endif
static struct token feed[MAXTOK]; static int nfeed, fpos;
static char *dup(const char *s) { size_t n = strlen(s) + 1; char *p = malloc(n); ASSUME(p != 0); memcpy(p, s, n); return p; }
static void push(enum tokenkind k, const char *lit, unsigned line) {
	feed[nfeed].kind = k; feed[nfeed].lit = lit ? dup(lit) : 0; feed[nfeed].loc.file = "<h>"; feed[nfeed].loc.line = line; feed[nfeed].loc.col = nfeed + 1; nfeed++;
}
void next(void) { if (fpos < nfeed) tok = feed[fpos++]; else { tok.kind = TEOF; tok.lit = 0; } }
bool consume(int kind) { if (tok.kind != kind) return false; next(); return true; }
char *expect(enum tokenkind kind, const char *msg) { char *lit = tokencheck(&tok, kind, msg); next(); return lit; }
bool peek(int kind) {
	if (fpos < nfeed ? feed[fpos].kind == kind : kind == TEOF) { next(); next(); return true; }
	return false;
}
void ppinit(void) {}
static int nerr; static struct location errloc;
#ifndef EXPECT_ERROR
#define EXPECT_ERROR 0
#endif
void error(const struct location *loc, const char *fmt, ...) {
	nerr++; errloc = *loc;
	CHECK(EXPECT_ERROR, "a valid translation unit is accepted");
#if defined(ERRMSG) && defined(STRICT_MSG)
	/* the property asks for *a* diagnostic and a non-zero status, not for a wording: the expected text is only compared on request
	 * (-DSTRICT_MSG, used while writing a skeleton to make sure it is rejected for the intended reason) */
	{ static const char want[] = ERRMSG; bool same = true; for (unsigned i = 0; i + 1 < sizeof want; i++) if (fmt[i] != want[i]) { same = false; break; }
	  CHECK(same, "the diagnostic is the one for this constraint"); }
#endif
#if defined(ERRLINE)
	CHECK(loc->line == ERRLINE, "diagnostic names the line of the offending construct");
#endif
#ifdef WITNESS
	CHECK(0, "witness: end of harness reachable");
#endif
	PATH_END();
}
#ifdef EXPECT_FATAL
/* documented-unsupported features reported through fatal() (non-zero exit, message on stderr) */
void fatal(const char *fmt, ...) {
#ifdef STRICT_MSG
	{ static const char want[] = ERRMSG; bool same = true; for (unsigned i = 0; i + 1 < sizeof want; i++) if (fmt[i] != want[i]) { same = false; break; }
	  CHECK(same, "the diagnostic is the one for this unsupported feature"); }
#endif
#ifdef WITNESS
	CHECK(0, "witness: end of harness reachable");
#endif
	PATH_END();
}
#else
void fatal(const char *fmt, ...) { CHECK(0, "fatal()/internal error reached"); PATH_END(); }
#endif
void *xmalloc(size_t n) { void *p = malloc(n); ASSUME(p != 0); return p; }
/* typed pools (CBMC only): pointers stored into the byte arrays malloc/realloc model are read back as unsimplified byte_extracts, which
 * turns every scope lookup and instruction walk symbolic; hash-table key/value arrays and instruction arrays get typed objects instead */
#ifndef REPLAY
#ifndef MAPCAP
#define MAPCAP 64      /* largest initial hash-table capacity in the sources (props/parselib.py:mapcap reads it from the tree) */
#endif
static struct mapkey kpool[16][MAPCAP]; static void *vpool[16][MAPCAP]; static int nkp, nvp;
static void *ipool[48][32]; static int nip;
void *xreallocarray(void *b, size_t n, size_t m) {
	if (!b && m == sizeof(struct mapkey) && n <= MAPCAP && nkp < 16) return kpool[nkp++];
	if (!b && m == sizeof(void *) && n <= MAPCAP && nvp < 16) return vpool[nvp++];
	if (b && (m == sizeof(struct mapkey) || m == sizeof(void *))) PATH_END();          /* table growth beyond 64 entries is outside these skeletons */
	if (b) {        /* byte/character buffers (string literals) grow by copy */
		size_t old = __CPROVER_OBJECT_SIZE(b); char *q = malloc(n * m); ASSUME(q != 0);
		for (size_t i = 0; i < 64; i++) if (i < old && i < n * m) q[i] = ((char *)b)[i];
		if (old > 64) PATH_END();
		return q;
	}
	void *p = malloc(n * m); ASSUME(p != 0); return p;
}
void *realloc(void *p, size_t n) { if (p || n > sizeof ipool[0] || nip >= 48) PATH_END(); return ipool[nip++]; }
#else
void *xreallocarray(void *b, size_t n, size_t m) { void *p = realloc(b, n * m); ASSUME(p != 0); return p; }
#endif
#ifdef DECODE_DATA
/* -DDECODE_DATA: the data definitions printed by qbe.c:emitdata are decoded back into a byte image (the last definition wins);
 * -DSYM_NUMBERS=n: integer literals 1001..1000+n denote the symbolic values symval[0..n-1] (strtoull model below) */
#include <stdarg.h>
#define OBJMAX 48
static unsigned char img[OBJMAX + 8]; static unsigned long long ipos; static int cur_w; static int bad, closed, align_seen = -1, ndefs, instr;
static void put(unsigned long long v, int w) { for (int i = 0; i < w; i++) { if (ipos < OBJMAX + 8) img[ipos] = v >> (8 * i); ipos++; } }
static bool streq(const char *a, const char *b) { for (int i = 0; i < 20; i++) { if (a[i] != b[i]) return false; if (!a[i]) return true; } return false; }
int printf(const char *fmt, ...) {
	va_list ap; va_start(ap, fmt);
	if (streq(fmt, "b %u, ")) put(va_arg(ap, unsigned), 1);
	else if (streq(fmt, "z %llu, ") || streq(fmt, "z %llu ") || streq(fmt, ", z %llu")) { unsigned long long n = va_arg(ap, unsigned long long); if (n == 0 || n > OBJMAX + 8) bad = 1; else ipos += n; }
	else if (streq(fmt, "%c ")) {
#ifdef REPLAY
		int c = (char)va_arg(ap, int);
#else
		int c = va_arg(ap, char);      /* CBMC hands a char argument to a user-defined variadic function unpromoted */
#endif
		cur_w = c == 'b' ? 1 : c == 'h' ? 2 : c == 'w' ? 4 : c == 'l' ? 8 : 0; if (!cur_w) bad = 1;
	}
	else if (streq(fmt, "%llu")) put(va_arg(ap, unsigned long long), cur_w);
	else if (streq(fmt, "\\%03o")) { if (!instr) bad = 1; put(va_arg(ap, unsigned), 1); }
	else if (streq(fmt, "%u ")) {
#ifdef REPLAY
		put(va_arg(ap, unsigned), cur_w);
#else
		if (cur_w == 2) put(va_arg(ap, unsigned short), 2); else put(va_arg(ap, unsigned), cur_w);
#endif
	}
	else if (streq(fmt, " = align %d { ")) { align_seen = va_arg(ap, int); ndefs++; ipos = 0; for (int i = 0; i < OBJMAX + 8; i++) img[i] = 0; }
	else if (streq(fmt, ".%u")) (void)va_arg(ap, unsigned);
	else bad = 1;
	va_end(ap); return 0;
}
int fputs(const char *s, FILE *f) { return 0; }
int puts(const char *s) { if (streq(s, "}")) closed++; else bad = 1; return 0; }
int putchar(int c) { if (instr) put((unsigned char)c, 1); return c; }
int fputc(int c, FILE *f) { if (c == '"') instr = !instr; return c; }
#else
int printf(const char *fmt, ...) { return 0; }
int puts(const char *s) { return 0; }
int fputs(const char *s, FILE *f) { return 0; }
int putchar(int c) { return c; }
int fputc(int c, FILE *f) { return c; }
#endif
#ifdef SYM_NUMBERS
static unsigned long long symval[SYM_NUMBERS];
#endif
#ifdef RECORD
/* symbol-table view: what gets defined, with which linkage */
#define MAXREC 8
static struct { struct decl *d; int isfunc; int global; } rec[MAXREC]; static int nrec;
static bool rec_is(int k, int isfunc, const char *name, int global) {        /* functions are identified by emission order only (struct func is private to qbe.c) */
	if (k >= nrec || k >= MAXREC || rec[k].isfunc != isfunc || rec[k].global != global) return false;
	if (isfunc || !name) return true;
	return rec[k].d && rec[k].d->name && strcmp(rec[k].d->name, name) == 0;
}
void emitfunc(struct func *f, bool global) { extern struct decl *verif_funcdecl(struct func *); if (nrec < MAXREC) { rec[nrec].d = 0; rec[nrec].isfunc = 1; rec[nrec].global = global; } nrec++; }
void emitdata(struct decl *d, struct init *i) { if (nrec < MAXREC) { rec[nrec].d = d; rec[nrec].isfunc = 0; rec[nrec].global = d->linkage == LINKEXTERN; } nrec++; }
#endif
#ifndef REPLAY
/* CBMC has no model of strtoull/strtod: small reference implementations (prefix 0x/0b handled by the caller's base argument) */
unsigned long long strtoull(const char *s, char **end, int base) {
	unsigned long long v = 0; const char *p = s;
	if (base == 16 && p[0] == '0' && (p[1] == 'x' || p[1] == 'X')) p += 2;
	for (int i = 0; i < 24; i++) {
		int c = *p, d;
		if (c >= '0' && c <= '9') d = c - '0'; else if (c >= 'a' && c <= 'f') d = c - 'a' + 10; else if (c >= 'A' && c <= 'F') d = c - 'A' + 10; else break;
		if (d >= base) break;
		v = v * base + d; p++;
	}
	if (end) *end = (char *)p;
#ifdef SYM_NUMBERS
	if (v > 1000 && v <= 1000 + SYM_NUMBERS) return symval[v - 1001];
#endif
	return v;
}
char *strpbrk(const char *s, const char *accept) {
	for (int i = 0; i < 40 && s[i]; i++) for (int j = 0; j < 8 && accept[j]; j++) if (s[i] == accept[j]) return (char *)s + i;
	return 0;
}
void free(void *p) {}      /* pooled objects are static; releasing memory is irrelevant to these obligations */
double strtod(const char *s, char **end) {
	double v = 0, scale = 1; const char *p = s; bool frac = false;
	for (int i = 0; i < 24; i++) {
		int c = *p;
		if (c >= '0' && c <= '9') { if (frac) { scale /= 10; v += (c - '0') * scale; } else v = v * 10 + (c - '0'); p++; }
		else if (c == '.' && !frac) { frac = true; p++; }
		else break;
	}
	if (*p == 'e' || *p == 'E') {      /* decimal exponent */
		const char *q = p + 1; bool neg = false; int ex = 0;
		if (*q == '+' || *q == '-') { neg = *q == '-'; q++; }
		if (*q >= '0' && *q <= '9') {
			for (int i = 0; i < 4 && *q >= '0' && *q <= '9'; i++, q++) ex = ex * 10 + (*q - '0');
			for (int i = 0; i < 40 && i < ex; i++) v = neg ? v / 10 : v * 10;
			p = q;
		}
	}
	if (end) *end = (char *)p;
	return v;
}
#endif
#if defined(REPLAY) && defined(SYM_NUMBERS)
#include <inttypes.h>
unsigned long long strtoull(const char *s, char **end, int base) { unsigned long long v = strtoumax(s, end, base); if (v > 1000 && v <= 1000 + SYM_NUMBERS) return symval[v - 1001]; return v; }
#endif
#include "tokens.inc"     /* static void feed_tokens(void) { push(...); ... }  and optional  static void checks(void) */
int main(void) {
#ifdef SYM_NUMBERS
	{ ND_ARR(unsigned long long, symv, SYM_NUMBERS); for (int i = 0; i < SYM_NUMBERS; i++) symval[i] = symv[i]; }
#endif
	targinit(TARGETNAME);
	feed_tokens();
	next();
	scopeinit();
	while (tok.kind != TEOF) {
		if (!decl(&filescope, NULL)) {
			if (tok.kind == TSEMICOLON) error(&tok.loc, "unexpected ';' at top-level");
			error(&tok.loc, "expected declaration or function definition");
		}
	}
	emittentativedefns();
#ifndef WITNESS_IN_ERROR
	WITNESS_POINT();
#endif
	CHECK(!EXPECT_ERROR, "a constraint violation / unsupported feature is diagnosed, not accepted");
	checks();
	return 0;
}
