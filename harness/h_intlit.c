/* C05: type of integer constants (C11 6.4.4.1p5): base prefix and suffix concrete per instance, digits symbolic.  The real
 * expr.c:primaryexpr(TNUMBER)/inttype and type.c:typehasint decide the type; oracle = the table of 6.4.4.1p5 on the value.
 * Unit included: expr.c; linked: type.  -DBASE 8|10|16|2, -DSUFFIX="..." , -DND_DIGITS */
#include "common.h"
#include "expr.c"
struct token tok;
static bool expect_error;
void error(const struct location *loc, const char *fmt, ...) { CHECK(expect_error, "a constant that has a type is accepted"); PATH_END(); }
void fatal(const char *fmt, ...) { CHECK(0, "fatal() reached"); PATH_END(); }
void *xmalloc(size_t n) { void *p = malloc(n); ASSUME(p != 0); return p; }
void next(void) { tok.kind = TEOF; }
#ifndef DPREFIX
#define DPREFIX ""
#endif
#ifndef REPLAY
unsigned long long strtoull(const char *s, char **end, int base) {
	unsigned long long v = 0; const char *p = s;
	if (base == 16 && p[0] == '0' && (p[1] == 'x' || p[1] == 'X')) p += 2;
	for (int i = 0; i < 70; i++) {
		int c = *p, d;
		if (c >= '0' && c <= '9') d = c - '0'; else if (c >= 'a' && c <= 'f') d = c - 'a' + 10; else if (c >= 'A' && c <= 'F') d = c - 'A' + 10; else break;
		if (d >= base) break;
		v = v * base + d; p++;
	}
	if (end) *end = (char *)p;
	return v;
}
char *strpbrk(const char *s, const char *accept) { for (int i = 0; i < 80 && s[i]; i++) for (int j = 0; j < 8 && accept[j]; j++) if (s[i] == accept[j]) return (char *)s + i; return 0; }
#endif
int main(void) {
	static const char suffix[] = SUFFIX;
	ND(unsigned long long, value);
	/* spell the (symbolic) value in the instance's base with exactly NDIG digits, leading zeros allowed */
	static char lit[80]; unsigned p = 0;
	if (BASE == 16) { lit[p++] = '0'; lit[p++] = 'x'; } else if (BASE == 8) lit[p++] = '0'; else if (BASE == 2) { lit[p++] = '0'; lit[p++] = 'b'; }
	unsigned bits = BASE == 16 ? 4 : BASE == 8 ? 3 : BASE == 2 ? 1 : 0;
	if (BASE == 10) {
		/* decimal: the digits themselves are the symbolic input (decomposing a symbolic value needs 64-bit division by 10, which no back end
		 * finishes); 19 digits, first one non-zero: all values below 10^19 with that many digits; shorter spellings by -DNDIG */
		ND_ARR(unsigned char, dig, NDIG);
		unsigned long long v = 0;
		static const char prefix[] = DPREFIX;      /* concrete leading digits (around a type limit), NDIG symbolic trailing digits */
		for (unsigned i = 0; i < sizeof prefix - 1; i++) { lit[p++] = prefix[i]; v = v * 10 + (prefix[i] - '0'); }
		for (unsigned i = 0; i < NDIG; i++) { ASSUME(dig[i] <= 9 && (i > 0 || sizeof prefix > 1 || dig[i] >= 1)); lit[p++] = '0' + dig[i]; v = v * 10 + dig[i]; }
		ASSUME(value == v);
	} else {
		unsigned nd = (64 + bits - 1) / bits;
		for (unsigned i = 0; i < nd; i++) { unsigned sh = (nd - 1 - i) * bits; unsigned dg = sh >= 64 ? 0 : (unsigned)(value >> sh) & ((1u << bits) - 1); lit[p++] = "0123456789abcdef"[dg]; }
	}
	for (unsigned i = 0; i < sizeof suffix - 1; i++) lit[p++] = suffix[i];
	lit[p] = 0;
	/* reference: 6.4.4.1p5 */
	bool u = false; int longs = 0;
	for (unsigned i = 0; i < sizeof suffix - 1; i++) { char c = suffix[i] | 32; if (c == 'u') u = true; if (c == 'l') longs++; }
	bool dec = BASE == 10 && value != 0;
	struct type *cand[6]; int nc = 0;
	if (longs == 0) { if (!u) cand[nc++] = &typeint; if (u || !dec) cand[nc++] = &typeuint; }
	if (longs <= 1) { if (!u) cand[nc++] = &typelong; if (u || !dec) cand[nc++] = &typeulong; }
	if (!u) cand[nc++] = &typellong; if (u || !dec) cand[nc++] = &typeullong;
	struct type *want = 0;
	for (int i = 0; i < 6; i++) if (i < nc && !want) {
		struct type *t = cand[i]; unsigned long long max = t->size == 4 ? (UBASIC(t).issigned ? 0x7fffffffull : 0xffffffffull) : (UBASIC(t).issigned ? 0x7fffffffffffffffull : ~0ull);
		if (value <= max) want = t;
	}
	expect_error = want == 0;
	tok.kind = TNUMBER; tok.lit = lit;
	struct expr *e = primaryexpr(NULL);
	WITNESS_POINT();
	CHECK(want != 0, "a constant that fits no type of its list is diagnosed");
	CHECK(e->kind == EXPRCONST && e->u.constant.u == value, "integer constant has its value");
	CHECK(e->type == want, "integer constant has the first type of its 6.4.4.1p5 list that can represent the value");
	return 0;
}
