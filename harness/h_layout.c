/* C06: decl.c:addmember against an independent model of the System V x86-64 struct/union layout rules.
 * A sequence of K members with symbolic base type, bit-field-ness, width, named-ness, _Alignas value; -DUNION for
 * unions, -DPACKED for packed structs (no bit-fields there: cproc rejects them).  Unit included: decl.c; linked: type. */
#include "common.h"
#include "decl.c"
struct token tok;
static bool expect_error;
void error(const struct location *loc, const char *fmt, ...) { CHECK(expect_error, "member sequence that the ABI model accepts is not rejected"); PATH_END(); }
void fatal(const char *fmt, ...) { CHECK(0, "fatal() reached"); PATH_END(); }
void *xmalloc(size_t n) { void *p = malloc(n); ASSUME(p != 0); return p; }
#ifndef K
#define K 3
#endif
/* nested aggregate member types with odd sizes/alignments (stand-ins for previously completed struct/array types) */
static struct type agg12_4 = {.kind = TYPESTRUCT, .size = 12, .align = 4}, agg3_1 = {.kind = TYPESTRUCT, .size = 3, .align = 1},
	agg24_8 = {.kind = TYPESTRUCT, .size = 24, .align = 8}, arr6_2 = {.kind = TYPEARRAY, .size = 6, .align = 2},
	agg32_16 = {.kind = TYPESTRUCT, .size = 32, .align = 16};
static struct type *const base[] = {&typechar, &typeuchar, &typeshort, &typeushort, &typeint, &typeuint, &typelong, &typeulong, &typebool, &typellong,
	&typefloat, &typedouble, &agg12_4, &agg3_1, &agg24_8, &arr6_2, &agg32_16};
#define NINT 10
#define NBASE (sizeof base / sizeof *base)
static char *names[] = {"a", "b", "c", "d", "e", "f"};
int main(void) {
	ND_ARR(unsigned, ti, K); ND_ARR(bool, isbf, K); ND_ARR(bool, named, K); ND_ARR(unsigned, width, K); ND_ARR(unsigned, al, K);
#ifdef UNION
	struct type st = {.kind = TYPEUNION};
#else
	struct type st = {.kind = TYPESTRUCT};
#endif
	struct structbuilder b = {&st, &st.u.structunion.members, 0,
#ifdef PACKED
		true
#else
		false
#endif
	};
	unsigned long long bitpos = 0, usize = 0; int salign = 0;     /* reference state */
	for (int i = 0; i < K; i++) {
		ASSUME(ti[i] < NBASE);
		struct type *t = base[ti[i]];
		unsigned S = t->size, A = t->align;
		unsigned long long w = width[i];
		if (isbf[i]) {
#ifdef PACKED
			ASSUME(0);
#endif
			ASSUME(ti[i] < NINT);
			ASSUME(w <= S * 8 && (w != 0 || !named[i]));
			if (t == &typebool) ASSUME(w <= 1);
			unsigned long long off = 0, before = 0;
#ifdef UNION
			if (w) { off = 0; before = 0; if (named[i]) { if (usize < S) usize = S; if (salign < (int)A) salign = A; } }
#else
			if (w == 0) bitpos = (bitpos + 8 * A - 1) / (8 * A) * (8 * A);
			else {
				if (bitpos / (8 * S) != (bitpos + w - 1) / (8 * S)) bitpos = (bitpos + 8 * A - 1) / (8 * A) * (8 * A);
				off = bitpos / (8 * S) * S; before = bitpos % (8 * S);
				bitpos += w;
				if (named[i] && salign < (int)A) salign = A;
			}
#endif
			addmember(&b, (struct qualtype){t, QUALNONE, 0}, named[i] ? names[i] : 0, 0, w);
			if (named[i] && w) {
				struct member *m = st.u.structunion.members; while (m->next) m = m->next;
				CHECK(m->name == names[i] && m->type == t, "member recorded");
				CHECK(m->offset == off, "bit-field storage unit offset equals the ABI's");
				CHECK(m->bits.before == (int)before, "bit-field position in its storage unit equals the ABI's");
				CHECK(m->bits.after == (int)(S * 8 - w - before), "bit-field bits after");
			}
		} else {
			unsigned a = al[i];
			ASSUME(a == 0 || a == 1 || a == 2 || a == 4 || a == 8 || a == 16 || a == 32 || a == 64);
			ASSUME(a == 0 || a >= A);        /* weaker alignment than the type's is a constraint violation (C10) */
			unsigned eff = a ? a : A;
#ifdef PACKED
			if (!a) eff = 1;
#endif
			unsigned long long off;
#ifdef UNION
			off = 0; if (usize < S) usize = S;
#else
			off = (bitpos + 7) / 8; off = (off + eff - 1) / eff * eff; bitpos = (off + S) * 8;
#endif
			if (salign < (int)eff) salign = eff;
			addmember(&b, (struct qualtype){t, QUALNONE, 0}, names[i], a, -1);
			struct member *m = st.u.structunion.members; while (m->next) m = m->next;
			CHECK(m->name == names[i] && m->type == t && m->bits.before == 0 && m->bits.after == 0, "member recorded");
			CHECK(m->offset == off, "member offset equals the ABI offset");
		}
	}
	unsigned long long size;
#ifdef UNION
	size = usize;
#else
	size = (bitpos + 7) / 8;
#endif
#ifndef PACKED
	if (salign) size = (size + salign - 1) / salign * salign;
	if (st.align) st.size = ALIGNUP(st.size, st.align);      /* what tagspec does when the definition is closed */
#endif
	WITNESS_POINT();
	if (st.u.structunion.members) {
		CHECK(st.align == salign, "struct/union alignment equals the ABI's");
		CHECK(st.size == size, "struct/union size equals the ABI's");
	}
	return 0;
}
