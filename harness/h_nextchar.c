/* C13/C11: nextchar() is the translation-phase-2 filter: it delivers the input with every backslash-newline pair
 * removed and counts the physical lines.  Unit included: scan.c. All N bytes symbolic, splices allowed. */
#include "common.h"
#include "scan.c"
#ifndef N
#define N 6
#endif
static int in[N + 1]; static unsigned inlen, rdpos; static int pushed = -2;
int getc(FILE *f) {
	if (pushed != -2) { int c = pushed; pushed = -2; return c; }
	if (rdpos >= inlen) { rdpos++; return EOF; }
	return in[rdpos++];
}
int ungetc(int c, FILE *f) { CHECK(pushed == -2, "nextchar needs one character of pushback only"); pushed = c; return c; }
int fclose(FILE *f) { return 0; }
void error(const struct location *loc, const char *fmt, ...) { CHECK(0, "nextchar never diagnoses"); PATH_END(); }
void fatal(const char *fmt, ...) { CHECK(0, "fatal"); PATH_END(); }
void *xmalloc(size_t n) { void *p = malloc(n); ASSUME(p != 0); return p; }
void *xreallocarray(void *b, size_t n, size_t m) { void *p = realloc(b, n * m); ASSUME(p != 0); return p; }

int main(void) {
	static FILE dummy;
	ND(unsigned, len); ND_ARR(unsigned char, bytes, N);
	ASSUME(len <= N);
	inlen = len;
	for (unsigned i = 0; i < N; i++) in[i] = bytes[i];
	in[N] = -1;
	scanfrom("<in>", &dummy);           /* performs the first nextchar */
	unsigned i = 0; size_t line = 1, col = 0;
	for (unsigned k = 0; k <= N; k++) {
		/* reference: skip splices, then deliver one character */
		while (i + 1 < inlen && in[i] == '\\' && in[i + 1] == '\n') { i += 2; line++; col = 0; }
		int want = i < inlen ? in[i] : EOF;
		i++;
		if (want == '\n') { line++; col = 0; } else col++;
		CHECK(scanner->chr == want, "nextchar delivers the next character of the spliced text");
		CHECK(scanner->loc.line == line, "line counts every physical newline, spliced or not");
		CHECK(scanner->loc.col == col, "column restarts after every physical newline");
		if (want == EOF) break;
		nextchar(scanner);
	}
	WITNESS_POINT();
	return 0;
}
