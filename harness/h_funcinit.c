/* C07/C01: qbe.c:funcinit (automatic objects): the stores and zero fills emitted for a sorted initializer list, executed by il.h on
 * memory that starts as symbolic garbage, must leave exactly the image the list denotes.  Layout (layout.inc, generated): object size
 * and alignment, each initializer's offset / storage-unit size / bit position / width are concrete; values and the garbage are symbolic. */
#include "common.h"
#include "qbe.c"
static unsigned char obj[64] __attribute__((aligned(16)));
static unsigned long long alloc_calls;
#define IL_ALLOC(n, a) (alloc_calls++, (unsigned long long)(uintptr_t)obj)
#include "il.h"
struct token tok;
void error(const struct location *loc, const char *fmt, ...) { CHECK(0, "no diagnostic"); PATH_END(); }
void fatal(const char *fmt, ...) { CHECK(0, "fatal()/internal error reached"); PATH_END(); }
void *xmalloc(size_t n) { void *p = malloc(n); ASSUME(p != 0); return p; }
#include "layout.inc"     /* OBJSIZE OBJALIGN NINIT and static const struct { unsigned start, usz, before, width; } LAY[NINIT] */
static struct type *ityp(unsigned sz) { return sz == 1 ? &typeuchar : sz == 2 ? &typeushort : sz == 4 ? &typeuint : &typeulong; }
int main(void) {
	ND_ARR(unsigned long long, val, NINIT); ND_ARR(unsigned char, garbage, 64);
	struct func f = {0};
	f.start = f.end = mkblock("start");
	funclabel(&f, mkblock("body"));
	struct type st = {.kind = TYPESTRUCT, .size = OBJSIZE, .align = OBJALIGN};
	struct decl d = {.name = "v", .kind = DECLOBJECT, .type = &st};
	d.u.obj.align = OBJALIGN; d.u.obj.storage = SDAUTO;
	static struct expr ex[NINIT]; static struct init in[NINIT];
	static unsigned char want[64];
	for (int i = 0; i < 64; i++) obj[i] = garbage[i];
	for (unsigned i = 0; i < NINIT; i++) {
		unsigned sz = LAY[i].usz, w = LAY[i].width; unsigned long long v = val[i];
		bool isbf = w != 0;
		ex[i].kind = EXPRCONST; ex[i].type = ityp(sz);
		if (isbf) { ASSUME(w == 64 || v < (1ull << w)); } else { ASSUME(sz == 8 || v < (1ull << (sz * 8))); }
		ex[i].u.constant.u = v;
		in[i].start = LAY[i].start; in[i].end = LAY[i].start + sz; in[i].expr = &ex[i]; in[i].next = i + 1 < NINIT ? &in[i + 1] : 0;
		in[i].bits.before = isbf ? LAY[i].before : 0; in[i].bits.after = isbf ? sz * 8 - LAY[i].before - w : 0;
		unsigned long long sb = LAY[i].start * 8ull + (isbf ? LAY[i].before : 0);
		unsigned __int128 sh = (unsigned __int128)v << (sb % 8);
		for (unsigned k = 0; k < 9; k++) { unsigned long long bi = sb / 8 + k; if (bi < 64) want[bi] |= (unsigned char)(sh >> (8 * k)); }
	}
	funcinit(&f, &d, &in[0], true);
	funcret(&f, 0);
	il_run(f.start, 0, 0);
	WITNESS_POINT();
	CHECK(IL_WELLFORMED(), "emitted IL is well-formed (classes, single definitions)");
	CHECK(alloc_calls == 1, "one stack slot per object");
	bool same = true, outside = true;
	for (unsigned i = 0; i < 64; i++) { if (i < OBJSIZE) { if (obj[i] != want[i]) same = false; } else if (obj[i] != garbage[i]) outside = false; }
	CHECK(same, "an automatic object holds exactly the specified image after initialisation: members their values, everything else zero");
	CHECK(outside, "nothing outside the object is written");
	return 0;
}
