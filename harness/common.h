/* Common harness vocabulary.  Under CBMC the inputs declared with ND() are
 * nondeterministic (solver variables); under -DREPLAY the same harness is an
 * ordinary program reading the solver's counterexample from $VERIF_REPLAY_INPUT
 * and is linked against the unmodified /repo sources. */
#ifndef VERIF_COMMON_H
#define VERIF_COMMON_H
#include <stddef.h>
#include <stdint.h>
#include <stdbool.h>
#include <string.h>
#include <stdlib.h>
#include <stdio.h>

#define VCAT_(a, b) a##b
#define VCAT(a, b) VCAT_(a, b)

#ifdef REPLAY
unsigned long long verif_replay_get(const char *name, long idx);
void verif_replay_fail(const char *msg, const char *file, int line);
void verif_replay_assume(const char *file, int line);
#define ND(T, name) T name; do { unsigned long long b_ = verif_replay_get(#name, -1); memcpy(&name, &b_, sizeof(name)); } while (0)
#define ND_ARR(T, name, n) T name[n]; do { for (long i_ = 0; i_ < (long)(n); i_++) { unsigned long long b_ = verif_replay_get(#name, i_); memcpy(&name[i_], &b_, sizeof(name[0])); } } while (0)
#define CHECK(c, msg) do { if (!(c)) verif_replay_fail(msg, __FILE__, __LINE__); } while (0)
#define ASSUME(c) do { if (!(c)) verif_replay_assume(__FILE__, __LINE__); } while (0)
void verif_replay_pathend(void);
#define PATH_END() verif_replay_pathend()
#define IS_CBMC 0
#else
#define ND(T, name) T VCAT(nondet_, name)(void); T name = VCAT(nondet_, name)()
#define ND_ARR(T, name, n) T VCAT(nondet_, name)(void); T name[n]; for (long i_ = 0; i_ < (long)(n); i_++) name[i_] = VCAT(nondet_, name)()
#define CHECK(c, msg) __CPROVER_assert(c, msg)
#define ASSUME(c) __CPROVER_assume(c)
#define PATH_END() __CPROVER_assume(0)
#define IS_CBMC 1
#endif

/* the verification snapshot hoists struct type's `u.basic` out of its union (vlib/unionfix.py:hoist_basic) */
#ifdef REPLAY
#define UBASIC(t) ((t)->u.basic)
#else
#define UBASIC(t) ((t)->ubasic)
#endif

#ifdef WITNESS
#define WITNESS_POINT() CHECK(0, "witness: end of harness reachable")
#else
#define WITNESS_POINT() ((void)0)
#endif

#endif
