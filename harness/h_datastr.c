/* C07: qbe.c:emitdata/dataitem for an array initialised by a string literal (element width -DW, literal of -DSNEL elements incl. the
 * terminator, array of -DSARR elements), followed by an int member; contents symbolic.
 * -DOVR=k: a later designator [k] = v (symbolic v) overrides element k of the array, inside or beyond the literal.  The printed items are decoded to bytes. */
#include "common.h"
#include <stdarg.h>
#include "qbe.c"
struct token tok;
void error(const struct location *loc, const char *fmt, ...) { CHECK(0, "constant initializer list is not rejected"); PATH_END(); }
void fatal(const char *fmt, ...) { CHECK(0, "fatal() reached"); PATH_END(); }
void *xmalloc(size_t n) { void *p = malloc(n); ASSUME(p != 0); return p; }
#define OBJMAX 40
static unsigned char img[OBJMAX + 8]; static unsigned long long ipos; static int cur_w; static int bad, closed, instr;
static void put(unsigned long long v, int w) { for (int i = 0; i < w; i++) { if (ipos < OBJMAX + 8) img[ipos] = v >> (8 * i); ipos++; } }
static bool streq(const char *a, const char *b) { for (int i = 0; i < 20; i++) { if (a[i] != b[i]) return false; if (!a[i]) return true; } return false; }
int printf(const char *fmt, ...) {
	va_list ap; va_start(ap, fmt);
	if (streq(fmt, "z %llu, ") || streq(fmt, "z %llu ") || streq(fmt, ", z %llu")) { unsigned long long n = va_arg(ap, unsigned long long); if (n == 0 || n > OBJMAX) bad = 1; else ipos += n; }
	else if (streq(fmt, "%c ")) {
#ifdef REPLAY
		int c = (char)va_arg(ap, int);
#else
		int c = va_arg(ap, char);
#endif
		cur_w = c == 'b' ? 1 : c == 'h' ? 2 : c == 'w' ? 4 : c == 'l' ? 8 : 0; if (!cur_w) bad = 1;
	}
	else if (streq(fmt, "%llu")) put(va_arg(ap, unsigned long long), cur_w);
	else if (streq(fmt, "\\%03o")) { if (!instr) bad = 1; put(va_arg(ap, unsigned), 1); }
	else if (streq(fmt, "%u ")) {        /* PRIuLEAST16 and PRIuLEAST32 are both "u" here; the item prefix (h/w) gives the width */
#ifdef REPLAY
		put(va_arg(ap, unsigned), cur_w);
#else
		if (cur_w == 2) put(va_arg(ap, unsigned short), 2); else put(va_arg(ap, unsigned), cur_w);     /* CBMC passes varargs unpromoted */
#endif
	}
	else if (streq(fmt, " = align %d { ")) (void)va_arg(ap, int);
	else if (streq(fmt, ".%u")) (void)va_arg(ap, unsigned);
	else bad = 1;
	va_end(ap); return 0;
}
int fputs(const char *s, FILE *f) { return 0; }
int puts(const char *s) { if (streq(s, "}")) closed++; else bad = 1; return 0; }
int putchar(int c) { if (instr) put((unsigned char)c, 1); return c; }
int fputc(int c, FILE *f) { if (c == '"') instr = !instr; return c; }
int main(void) {
	ND_ARR(unsigned char, sdata, SNEL * W); ND(unsigned, ival);
	struct type *el = W == 1 ? &typechar : W == 2 ? &typeushort : &typeuint;
	struct type arr = {.kind = TYPEARRAY, .base = el, .size = SARR * W, .align = W};
	struct type lit = {.kind = TYPEARRAY, .base = el, .size = SNEL * W, .align = W};
	unsigned ioff = (SARR * W + 3) / 4 * 4;
	struct type st = {.kind = TYPESTRUCT, .size = ioff + 4, .align = 4};
	struct decl d = {.name = "x", .kind = DECLOBJECT, .linkage = LINKEXTERN, .type = &st};
	d.u.obj.align = 4; d.u.obj.storage = SDSTATIC;
	struct value gv = {.kind = VALUE_GLOBAL}; gv.u.name = "x"; d.value = &gv;
	unsigned char *buf = malloc(SNEL * W); ASSUME(buf != 0);      /* literals live in allocated memory (expr.c:stringconcat) */
	unsigned char lit0[SNEL * W];
	for (unsigned i = 0; i < SNEL * W; i++) buf[i] = sdata[i];
	for (unsigned i = 0; i < W; i++) buf[(SNEL - 1) * W + i] = 0;             /* literals end with a zero element */
	struct expr se = {.kind = EXPRSTRING, .type = &lit}; se.u.string.size = SNEL; se.u.string.data = buf;
	struct expr ie = {.kind = EXPRCONST, .type = &typeuint}; ie.u.constant.u = ival;
	struct init i2 = {ioff, ioff + 4, &ie, {0, 0}, 0};
	for (unsigned i = 0; i < SNEL * W; i++) lit0[i] = buf[i];
#ifdef OVR
	ND(unsigned, oval);
	struct expr oe = {.kind = EXPRCONST, .type = el}; oe.u.constant.u = W == 1 ? (unsigned char)oval : W == 2 ? (unsigned short)oval : oval;
	struct init iov = {OVR * W, OVR * W + W, &oe, {0, 0}, &i2};
	struct init i1 = {0, SARR * W, &se, {0, 0}, &iov};
#else
	struct init i1 = {0, SARR * W, &se, {0, 0}, &i2};
#endif
	emitdata(&d, &i1);
	WITNESS_POINT();
	CHECK(!bad, "every emitted item is a well-formed data item");
	CHECK(closed == 1, "definition is closed exactly once");
	CHECK(ipos == st.size, "definition has exactly the size of the object");
	bool same = true;
	for (unsigned i = 0; i < OBJMAX; i++) if (i < st.size) {
		unsigned char want = 0;
		if (i < SARR * W && i < SNEL * W) want = lit0[i];                         /* truncated or zero-extended to the array */
		else if (i >= ioff) want = (unsigned char)(ival >> (8 * (i - ioff)));
#ifdef OVR
		if (i >= OVR * W && i < OVR * W + W) want = (unsigned char)(oval >> (8 * (i - OVR * W)));     /* the later designator wins (C11 6.7.9p19) */
#endif
		if (img[i] != want) same = false;
	}
	CHECK(same, "string initializer is truncated or zero-extended to the array, a later designator overrides its element, the following member is at its offset");
	return 0;
}
