/* C12 (expansion): the real pp.c - next/expand/expandfunc/ctxnext/peekparen/define/undef/directive/stringize/keyword - runs on a concrete
 * raw token sequence (raw.inc, produced from a C text by props/pplib.py; replaces scan.c) and must deliver exactly the token sequence
 * expected.inc (the same text run through the platform preprocessor, gcc -E, and tokenised the same way).  Structure and spellings are
 * concrete; CBMC executes the real code with arbitrary allocator contents and decides cproc's own assertions, the harness's bounds and the
 * comparison.  Unit included: pp.c; linked: token, map, util (arrayadd family replaced by typed rows). */
#include "common.h"
#include "pp.c"
#define MAXRAW 260
static struct token raw[MAXRAW]; static int nraw, rpos;
static char *dupstr(const char *s) { size_t n = strlen(s) + 1; char *p = malloc(n); ASSUME(p != 0); memcpy(p, s, n); return p; }
static void rpush(enum tokenkind k, const char *lit, bool space, unsigned line) {
	raw[nraw].kind = k; raw[nraw].lit = lit ? dupstr(lit) : 0; raw[nraw].space = space; raw[nraw].hide = false;
	raw[nraw].loc.file = "<h>"; raw[nraw].loc.line = line; raw[nraw].loc.col = 1; nraw++;
}
void scan(struct token *t) {
	if (rpos < nraw) { *t = raw[rpos++]; return; }
	t->kind = TEOF; t->lit = 0; t->space = false; t->hide = false; t->loc.file = "<h>"; t->loc.line = 0; t->loc.col = 0;
}
void scanfrom(const char *n, FILE *f) {} void scanopen(void) {} void scansetloc(struct location l) {}
#ifndef EXPECT_ERROR
#define EXPECT_ERROR 0
#endif
void error(const struct location *loc, const char *fmt, ...) {
	CHECK(EXPECT_ERROR, "a valid macro set is accepted");
#ifdef WITNESS
	CHECK(0, "witness: end of harness reachable");
#endif
	PATH_END();
}
void fatal(const char *fmt, ...) { CHECK(0, "fatal()/internal error reached"); PATH_END(); }
void *xmalloc(size_t n) { void *p = malloc(n); ASSUME(p != 0); return p; }
#ifndef REPLAY
/* typed rows instead of realloc'ed byte arrays (pointers stored in byte arrays are read back as non-constant byte_extracts) */
#define RN 48
static struct token tokrow[40][RN]; static int ntokrow;
static struct frame framerow[2][RN]; static int nframerow;
static struct macroparam paramrow[24][8]; static int nparamrow;
static struct macroarg argrow[40][8]; static int nargrow;
static char charrow[24][96]; static int ncharrow;
#ifndef MAPCAP
#define MAPCAP 64      /* largest initial hash-table capacity in the sources (props/parselib.py:mapcap reads it from the tree) */
#endif
static struct mapkey kpool[4][MAPCAP]; static void *vpool[4][MAPCAP]; static int nkp, nvp;
void *arrayadd(struct array *a, size_t n) {
	if (!a->val) {
		if (n == sizeof(struct token)) { if (ntokrow >= 40) PATH_END(); a->val = tokrow[ntokrow++]; a->cap = sizeof tokrow[0]; }
		else if (n == sizeof(struct frame)) { if (nframerow >= 2) PATH_END(); a->val = framerow[nframerow++]; a->cap = sizeof framerow[0]; }
		else if (n == sizeof(struct macroparam)) { if (nparamrow >= 24) PATH_END(); a->val = paramrow[nparamrow++]; a->cap = sizeof paramrow[0]; }
		else { if (ncharrow >= 24) PATH_END(); a->val = charrow[ncharrow++]; a->cap = sizeof charrow[0]; }
		a->len = 0;
	}
	if (a->len + n > a->cap) PATH_END();         /* beyond the row: outside these macro sets */
	void *p = (char *)a->val + a->len; a->len += n; return p;
}
void arrayaddbuf(struct array *a, const void *src, size_t n) {
	if (n == sizeof(struct token)) { *(struct token *)arrayadd(a, n) = *(const struct token *)src; return; }
	char *d = arrayadd(a, n); for (size_t i = 0; i < 96; i++) if (i < n) d[i] = ((const char *)src)[i];
}
void *arraylast(struct array *a, size_t n) { return (char *)a->val + a->len - n; }
void *xreallocarray(void *b, size_t n, size_t m) {
	if (!b && m == sizeof(struct mapkey) && n <= MAPCAP && nkp < 4) return kpool[nkp++];
	if (!b && m == sizeof(void *) && n <= MAPCAP && nvp < 4) return vpool[nvp++];
	if (!b && m == sizeof(struct macroarg)) { if (n > 8 || nargrow >= 40) PATH_END(); return argrow[nargrow++]; }
	PATH_END(); return 0;
}
#ifdef SAFE_FREE
/* memory-safety runs: releasing a heap block really ends its lifetime (rows are static and stay) */
void free(void *p) { if (p && __CPROVER_DYNAMIC_OBJECT(p)) __CPROVER_deallocate(p); }
#else
void free(void *p) {}
#endif
int snprintf(char *s, size_t n, const char *fmt, ...) { if (n) s[0] = 0; return 0; }      /* token descriptions inside diagnostics: formatting is not the subject */
unsigned long long strtoull(const char *s, char **end, int base) {      /* #line operands */
	unsigned long long v = 0; const char *p = s;
	for (int i = 0; i < 12; i++) { int c = *p; if (c < '0' || c > '9') break; v = v * 10 + (c - '0'); p++; }
	if (end) *end = (char *)p;
	return v;
}
#endif
#include "raw.inc"        /* static void feed_raw(void) { rpush(...); ... } */
#include "expected.inc"   /* NEXP, static const struct { int kind; const char *lit; } EXP[] */
static bool eqlit(const char *a, const char *b) {
	if (!a || !b) return !a && !b;
	for (int i = 0; i < 80; i++) { if (a[i] != b[i]) return false; if (!a[i]) return true; }
	return false;
}
int main(void) {
	feed_raw();
	ppinit();
	int k = 0; bool kinds_ok = true, lits_ok = true;
	for (; k < NEXP + 4 && tok.kind != TEOF; k++) {
		if (k < NEXP) {
			if ((int)tok.kind != EXP[k].kind) kinds_ok = false;
			else if (EXP[k].lit && !eqlit(tok.lit, EXP[k].lit)) lits_ok = false;
		}
		next();
	}
	WITNESS_POINT();
	CHECK(!EXPECT_ERROR, "a constraint violation / unsupported directive is diagnosed, not accepted");
	CHECK(k == NEXP && tok.kind == TEOF, "macro replacement yields exactly as many tokens as C11 6.10.3 prescribes");
	CHECK(kinds_ok, "macro replacement yields the token sequence C11 6.10.3 prescribes (kinds, keywords recognised after expansion)");
	CHECK(lits_ok, "identifiers, numbers and literals - including stringized arguments - have the prescribed spelling");
	return 0;
}
