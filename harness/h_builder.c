/* C03: the IL builder as a state machine.  Every sequence of up to N builder calls (-DSEQ="digits", enumerated by the generator) (funcinst / funclabel / funcjmp / funcjnz / funcret /
 * funchlt) on a fresh function, then the epilogue emitfunc() applies (implicit return).  Invariants of a well-formed function body:
 * no instruction is ever appended to a terminated block, a block's terminator is set at most once and names existing blocks, and the
 * function's last block ends terminated.  Unit included: qbe.c; linked: type, util. */
#include "common.h"
#include "qbe.c"
#define IL_NO_POOL_EXTERN
#include "il.h"
struct token tok;
void error(const struct location *loc, const char *fmt, ...) { CHECK(0, "no diagnostic"); PATH_END(); }
void fatal(const char *fmt, ...) { CHECK(0, "fatal()/internal error reached"); PATH_END(); }
void *xmalloc(size_t n) { void *p = malloc(n); ASSUME(p != 0); return p; }
#define NCALLS (sizeof(SEQ) - 1)
int main(void) {
	static const char seq[] = SEQ;        /* the call sequence is concrete per instance (all sequences are enumerated by the generator) */
	unsigned sel[NCALLS];
	for (int i = 0; i < NCALLS; i++) sel[i] = seq[i] - '0';
	struct func f = {0};
	f.start = f.end = mkblock("start");
	struct block *t1 = mkblock("t1"), *t2 = mkblock("t2");
	struct value c = {.kind = VALUE_INTCONST};
	for (int i = 0; i < NCALLS; i++) {
		ASSUME(sel[i] < 6);
		struct block *before = f.end; int kind_before = before->jump.kind; size_t len_before = before->insts.len;
		switch (sel[i]) {
		case 0: funcinst(&f, IADD, 'w', &c, &c); break;
		case 1: funclabel(&f, mkblock("lbl")); break;
		case 2: funcjmp(&f, t1); break;
		case 3: funcjnz(&f, &c, NULL, t1, t2); break;
		case 4: funcret(&f, NULL); break;
		case 5: funchlt(&f); break;
		}
		if (kind_before != JUMP_NONE) {
			CHECK(before->jump.kind == kind_before, "a block's terminator is never overwritten");
			CHECK(before->insts.len == len_before, "no instruction is appended to a terminated block");
		}
	}
	/* epilogue of emitfunc() */
	if (f.end->jump.kind == JUMP_NONE) funcret(&f, NULL);
	WITNESS_POINT();
	int n = 0;
	for (struct block *b = f.start; b && n < 2 * NCALLS + 4; b = b->next, n++) {
		if (b->jump.kind == JUMP_JMP) CHECK(b->jump.blk[0] != 0, "jmp names a block");
		if (b->jump.kind == JUMP_JNZ) CHECK(b->jump.blk[0] != 0 && b->jump.blk[1] != 0 && b->jump.arg != 0, "jnz names two blocks and a value");
		if (!b->next) CHECK(b->jump.kind != JUMP_NONE, "the last block of the function is terminated");
	}
	CHECK(n <= 2 * NCALLS + 2, "block list is finite and acyclic");
	return 0;
}
