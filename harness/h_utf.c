/* C14: utf.c kernels vs RFC 3629 / Unicode (independent reference). Units: utf */
#include "common.h"
#include "utf.h"

/* RFC 3629 section 4 syntax, written as the ABNF table (not as arithmetic) */
static int ref_len(const unsigned char *s, size_t n) {
	unsigned char a = s[0];
	if (a <= 0x7f) return 1;
#define T(i) (s[i] >= 0x80 && s[i] <= 0xbf)
	if (a >= 0xc2 && a <= 0xdf) return n >= 2 && T(1) ? 2 : -1;
	if (a == 0xe0) return n >= 3 && s[1] >= 0xa0 && s[1] <= 0xbf && T(2) ? 3 : -1;
	if ((a >= 0xe1 && a <= 0xec) || a == 0xee || a == 0xef) return n >= 3 && T(1) && T(2) ? 3 : -1;
	if (a == 0xed) return n >= 3 && s[1] >= 0x80 && s[1] <= 0x9f && T(2) ? 3 : -1;
	if (a == 0xf0) return n >= 4 && s[1] >= 0x90 && s[1] <= 0xbf && T(2) && T(3) ? 4 : -1;
	if (a >= 0xf1 && a <= 0xf3) return n >= 4 && T(1) && T(2) && T(3) ? 4 : -1;
	if (a == 0xf4) return n >= 4 && s[1] >= 0x80 && s[1] <= 0x8f && T(2) && T(3) ? 4 : -1;
	return -1;
}
static uint32_t ref_val(const unsigned char *s, int l) {
	switch (l) {
	case 1: return s[0];
	case 2: return (uint32_t)(s[0] & 0x1f) << 6 | (s[1] & 0x3f);
	case 3: return (uint32_t)(s[0] & 0x0f) << 12 | (uint32_t)(s[1] & 0x3f) << 6 | (s[2] & 0x3f);
	default: return (uint32_t)(s[0] & 0x07) << 18 | (uint32_t)(s[1] & 0x3f) << 12 | (uint32_t)(s[2] & 0x3f) << 6 | (s[3] & 0x3f);
	}
}
static bool scalar(uint32_t c) { return c <= 0x10ffff && !(c >= 0xd800 && c <= 0xdfff); }

int main(void) {
#if MODE == 1   /* utf8dec on every 4-byte window and every n */
	ND_ARR(unsigned char, in, 4);
	ND(size_t, n);
	ASSUME(n >= 1 && n <= 4);
	uint_least32_t c = 0xffffffff;
	size_t got = utf8dec(&c, in, n);
	int want = ref_len(in, n);
	WITNESS_POINT();
	CHECK((want < 0) == (got == (size_t)-1), "utf8dec rejects exactly the sequences RFC 3629 excludes (overlong, surrogates, >U+10FFFF, truncated, bad tail)");
	if (want > 0 && got != (size_t)-1) {
		CHECK(got == (size_t)want, "utf8dec consumes the length of the sequence");
		CHECK(c == ref_val(in, want), "utf8dec yields the scalar value");
		CHECK(scalar(c), "decoded value is a Unicode scalar value");
	}
#elif MODE == 2   /* utf8enc for every scalar value + round trip */
	ND(uint_least32_t, c);
	ASSUME(scalar(c));
	unsigned char out[4] = {0, 0, 0, 0};
	size_t l = utf8enc(out, c);
	int want = c < 0x80 ? 1 : c < 0x800 ? 2 : c < 0x10000 ? 3 : 4;
	WITNESS_POINT();
	CHECK(l == (size_t)want, "utf8enc uses the shortest form");
	CHECK(ref_len(out, l) == want, "utf8enc output is well-formed UTF-8");
	CHECK(ref_val(out, want) == c, "utf8enc output decodes (reference) to the input");
	uint_least32_t back = 0;
	CHECK(utf8dec(&back, out, 4) == l && back == c, "utf8dec(utf8enc(c)) == c");
#elif MODE == 3   /* utf16enc for every scalar value */
	ND(uint_least32_t, c);
	ASSUME(scalar(c));
	uint_least16_t out[2] = {0, 0};
	size_t l = utf16enc(out, c);
	WITNESS_POINT();
	if (c < 0x10000) {
		CHECK(l == 1 && out[0] == c, "BMP scalar is one UTF-16 unit");
	} else {
		CHECK(l == 2, "supplementary scalar is a surrogate pair");
		CHECK(out[0] >= 0xd800 && out[0] <= 0xdbff && out[1] >= 0xdc00 && out[1] <= 0xdfff, "high then low surrogate");
		CHECK(0x10000 + (((uint32_t)out[0] - 0xd800) << 10) + (out[1] - 0xdc00) == c, "pair decodes to the scalar");
	}
#endif
	return 0;
}
