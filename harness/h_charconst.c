/* C14: character constants.  The token text PREFIX ' body ' (body symbolic, restricted to what the scanner lets
 * through) goes through the real expr.c:primaryexpr/decodechar; type and value are compared with C11 6.4.4.4.
 * Unit included: expr.c; linked: utf, type, targ.  -DPREFIX 0 none,1 L,2 u,3 U,4 u8; -DTARGET 0 x86_64,1 aarch64,2 riscv64 */
#include "common.h"
#include "expr.c"
struct token tok;
static bool ref_invalid; static int nnext;
static bool may_reject;
void error(const struct location *loc, const char *fmt, ...) { CHECK(ref_invalid || may_reject, "a valid single-character constant is accepted"); PATH_END(); }
void fatal(const char *fmt, ...) { CHECK(0, "fatal() reached"); PATH_END(); }
void *xmalloc(size_t n) { void *p = malloc(n); ASSUME(p != 0); return p; }
void next(void) { nnext++; tok.kind = TEOF; }
#ifndef NB
#define NB 6
#endif
static bool hexd(int c) { return (c >= '0' && c <= '9') || (c >= 'a' && c <= 'f') || (c >= 'A' && c <= 'F'); }
static unsigned hexv(int c) { return c <= '9' ? c - '0' : (c | 32) - 'a' + 10; }
static bool octd(int c) { return c >= '0' && c <= '7'; }
/* RFC 3629 */
static int u8len(const unsigned char *s) {
	unsigned char a = s[0];
#define T(i) (s[i] >= 0x80 && s[i] <= 0xbf)
	if (a <= 0x7f) return 1;
	if (a >= 0xc2 && a <= 0xdf) return T(1) ? 2 : -1;
	if (a == 0xe0) return s[1] >= 0xa0 && s[1] <= 0xbf && T(2) ? 3 : -1;
	if ((a >= 0xe1 && a <= 0xec) || a == 0xee || a == 0xef) return T(1) && T(2) ? 3 : -1;
	if (a == 0xed) return s[1] >= 0x80 && s[1] <= 0x9f && T(2) ? 3 : -1;
	if (a == 0xf0) return s[1] >= 0x90 && s[1] <= 0xbf && T(2) && T(3) ? 4 : -1;
	if (a >= 0xf1 && a <= 0xf3) return T(1) && T(2) && T(3) ? 4 : -1;
	if (a == 0xf4) return s[1] >= 0x80 && s[1] <= 0x8f && T(2) && T(3) ? 4 : -1;
	return -1;
}
int main(void) {
	static const char *const tn[] = {"x86_64-sysv", "aarch64", "riscv64"};
	targinit(tn[TARGET]);
	ND_ARR(unsigned char, body, NB);
	static unsigned char lit[NB + 8];
	unsigned p = 0;
#if PREFIX == 1
	lit[p++] = 'L';
#elif PREFIX == 2
	lit[p++] = 'u';
#elif PREFIX == 3
	lit[p++] = 'U';
#elif PREFIX == 4
	lit[p++] = 'u'; lit[p++] = '8';
#endif
	lit[p++] = '\'';
	unsigned b0 = p;
	for (unsigned i = 0; i < NB; i++) lit[p++] = body[i];
	lit[p++] = '\''; lit[p] = 0;
	/* the scanner ends the token at the first unescaped quote */
	for (unsigned i = 0, skip = 0; i < NB; i++) {
		if (skip) { skip = 0; continue; }
		if (body[i] == '\\') skip = 1;
		else if (body[i] == '\'') { lit[b0 + i + 1] = 0; break; }
	}
	/* what the scanner guarantees about the token text: it ends at the first unescaped quote, contains no NUL/newline,
	 * every backslash starts a well-formed escape (scan.c:escape, verified by C13) */
	unsigned char *s = lit + b0;
	unsigned long long val = 0; bool esc = false, overflow = false; unsigned n;       /* reference decoding of the first c-char */
	ref_invalid = false;
	for (unsigned i = 0; i < NB; i++) ASSUME(body[i] != 0 && body[i] != '\n');
	if (s[0] == '\'') { ref_invalid = true; n = 0; }                                   /* empty constant */
	else if (s[0] == '\\') {
		esc = true;
		switch (s[1]) {
		case '\'': case '"': case '?': case '\\': val = s[1]; n = 2; esc = false; break;
		case 'a': val = 7; n = 2; esc = false; break; case 'b': val = 8; n = 2; esc = false; break; case 'f': val = 12; n = 2; esc = false; break;
		case 'n': val = 10; n = 2; esc = false; break; case 'r': val = 13; n = 2; esc = false; break; case 't': val = 9; n = 2; esc = false; break;
		case 'v': val = 11; n = 2; esc = false; break;
		case 'x':
			ASSUME(hexd(s[2]));                       /* scanner rejects \x without digits */
			n = 2;
			for (unsigned k = 0; k < NB; k++) if (hexd(s[n])) { if (val >> 60) overflow = true; val = val << 4 | hexv(s[n]); n++; } else break;
			break;
		default:
			ASSUME(octd(s[1]));                       /* scanner rejects any other escape */
			n = 1;
			for (unsigned k = 0; k < 3; k++) if (octd(s[n])) { val = val << 3 | (s[n] - '0'); n++; } else break;
		}
	} else {
		int l = u8len(s);
		if (l < 0) { ref_invalid = true; n = 1; }
		else {
			n = l;
			val = l == 1 ? s[0] : l == 2 ? (s[0] & 0x1f) << 6 | (s[1] & 0x3f) : l == 3 ? (s[0] & 0xf) << 12 | (s[1] & 0x3f) << 6 | (s[2] & 0x3f)
				: (unsigned long long)(s[0] & 7) << 18 | (s[1] & 0x3f) << 12 | (s[2] & 0x3f) << 6 | (s[3] & 0x3f);
		}
	}
	/* the scanner token ends at the first unescaped quote: everything after the first c-char up to it makes it a multi-character constant */
	if (!ref_invalid && s[n] != '\'') ref_invalid = true;       /* multi-character constants are documented as rejected */
	struct type *wt;
	unsigned long long want = val, limit;
#if PREFIX == 0
	wt = &typeint; limit = 0xff;
	if (!esc) { if (val > 0x7f) ASSUME(0); }                    /* non-ASCII members of a plain constant: implementation-defined, not claimed */
	want = TARGET == 0 ? (unsigned long long)(long long)(signed char)(unsigned char)val : (unsigned char)val;   /* value of (char)val as int */
#elif PREFIX == 1
	wt = TARGET == 1 ? &typeuint : &typeint; limit = 0xffffffffu;
#elif PREFIX == 2
	wt = &typeushort; limit = 0xffff;
#elif PREFIX == 3
	wt = &typeuint; limit = 0xffffffffu;
#else
	wt = &typeuchar; limit = 0xff;
	if (!esc) { if (val > 0x7f) ASSUME(0); }
#endif
	bool range_invalid = !ref_invalid && (overflow || val > limit);       /* 6.4.4.4p9: escape value out of range; code point not representable */
	may_reject = range_invalid;
#ifndef RANGE_PROBE
	/* known finding (known_findings.txt): out-of-range values are truncated, not rejected; excluded here, demonstrated by the *.range instances */
	ASSUME(!range_invalid);
#else
	ASSUME(range_invalid);
#endif
	tok.kind = TCHARCONST; tok.lit = (char *)lit;
	struct expr *e = primaryexpr(NULL);
	WITNESS_POINT();
	CHECK(!range_invalid, "a character constant whose escape value or code point is out of range for its type is rejected");
	CHECK(!ref_invalid, "an invalid character constant (bad UTF-8, empty, several characters) is rejected");
#ifndef RANGE_PROBE
	CHECK(e->kind == EXPRCONST && e->type == wt, "character constant has the type C11 6.4.4.4 gives its prefix on this target");
	CHECK(e->u.constant.u == want, "character constant has the mandated value");
#endif
	return 0;
}
