/* C13: pp.c:keyword maps exactly the documented keyword spellings (incl. GNU/C23 alternatives) and nothing else.
 * Unit included: pp.c.  Symbolic identifier of up to LEN bytes. */
#include "common.h"
#include "pp.c"
#ifndef LEN_
#define LEN_ 14
#endif
void error(const struct location *loc, const char *fmt, ...) { CHECK(0, "keyword never diagnoses"); PATH_END(); }
static const struct { const char *s; int k; } REF[] = {
	/* C11 6.4.1 */
	{"auto", TAUTO}, {"break", TBREAK}, {"case", TCASE}, {"char", TCHAR}, {"const", TCONST}, {"continue", TCONTINUE},
	{"default", TDEFAULT}, {"do", TDO}, {"double", TDOUBLE}, {"else", TELSE}, {"enum", TENUM}, {"extern", TEXTERN},
	{"float", TFLOAT}, {"for", TFOR}, {"goto", TGOTO}, {"if", TIF}, {"inline", TINLINE}, {"int", TINT}, {"long", TLONG},
	{"register", TREGISTER}, {"restrict", TRESTRICT}, {"return", TRETURN}, {"short", TSHORT}, {"signed", TSIGNED},
	{"sizeof", TSIZEOF}, {"static", TSTATIC}, {"struct", TSTRUCT}, {"switch", TSWITCH}, {"typedef", TTYPEDEF},
	{"union", TUNION}, {"unsigned", TUNSIGNED}, {"void", TVOID}, {"volatile", TVOLATILE}, {"while", TWHILE},
	{"_Alignas", TALIGNAS}, {"_Alignof", TALIGNOF}, {"_Atomic", T_ATOMIC}, {"_Bool", TBOOL}, {"_Complex", T_COMPLEX},
	{"_Generic", T_GENERIC}, {"_Imaginary", T_IMAGINARY}, {"_Noreturn", T_NORETURN}, {"_Static_assert", TSTATIC_ASSERT},
	{"_Thread_local", TTHREAD_LOCAL},
	/* C23 spellings */
	{"alignas", TALIGNAS}, {"alignof", TALIGNOF}, {"bool", TBOOL}, {"constexpr", TCONSTEXPR}, {"false", TFALSE},
	{"nullptr", TNULLPTR}, {"static_assert", TSTATIC_ASSERT}, {"thread_local", TTHREAD_LOCAL}, {"true", TTRUE},
	{"typeof", TTYPEOF}, {"typeof_unqual", TTYPEOF_UNQUAL}, {"_Decimal128", T_DECIMAL128}, {"_Decimal32", T_DECIMAL32},
	{"_Decimal64", T_DECIMAL64},
	/* GNU alternative spellings documented in doc/extensions */
	{"__alignof__", TALIGNOF}, {"__asm", T__ASM__}, {"__asm__", T__ASM__}, {"__attribute__", T__ATTRIBUTE__},
	{"__inline", TINLINE}, {"__inline__", TINLINE}, {"__signed", TSIGNED}, {"__signed__", TSIGNED}, {"__thread", TTHREAD_LOCAL},
	{"__typeof", TTYPEOF}, {"__typeof__", TTYPEOF}, {"__volatile__", TVOLATILE},
};
int main(void) {
	ND_ARR(char, id, LEN_ + 1);
	id[LEN_] = 0;
	char *lit = malloc(LEN_ + 1); ASSUME(lit != 0);
	for (int i = 0; i <= LEN_; i++) lit[i] = id[i];
	int want = TIDENT;
	for (unsigned k = 0; k < sizeof REF / sizeof *REF; k++) {
		bool eq = true; bool ended = false;
		for (int i = 0; i <= LEN_; i++) {
			if (ended) break;
			char r = REF[k].s[i];
			if (id[i] != r) eq = false;
			if (r == 0 || id[i] == 0) ended = true;
		}
		if (eq) want = REF[k].k;
	}
	struct token t = {.kind = TIDENT, .lit = lit};
	keyword(&t);
	WITNESS_POINT();
	CHECK(t.kind == want, "identifier is a keyword iff it is one of the documented spellings, and then that keyword");
	CHECK((t.lit == NULL) == (want != TIDENT), "keywords carry no spelling, identifiers keep theirs");
	return 0;
}
