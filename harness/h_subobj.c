/* C19: init.c:subobj pushes onto the fixed 32-entry designator stack; from an arbitrary stack depth one push either stays in
 * bounds or ends in the internal "too many designators" error.  Unit included: init.c.  Run with bounds/pointer checks. */
#include "common.h"
#include "init.c"
struct token tok;
static bool fataled;
void error(const struct location *loc, const char *fmt, ...) { PATH_END(); }
void fatal(const char *fmt, ...) { fataled = true; PATH_END(); }
void *xmalloc(size_t n) { void *p = malloc(n); ASSUME(p != 0); return p; }
int main(void) {
	ND(unsigned, depth); ND(unsigned long long, off);
	static struct initparser p;
	ASSUME(depth < LEN(p.obj));
	p.cur = p.obj; p.sub = p.obj + depth;
	p.sub->offset = 0;
	subobj(&p, &typeint, off);
	WITNESS_POINT();
	CHECK(p.sub >= p.obj && p.sub < p.obj + LEN(p.obj), "the designator stack pointer stays inside the 32-entry array (deeper nesting ends in a diagnosed internal error)");
	CHECK(p.sub == p.obj + depth + 1 && p.sub->type == &typeint && p.sub->offset == off, "the sub-object is pushed");
	return 0;
}
