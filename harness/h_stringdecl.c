/* C16: decl.c:stringdecl pools string literals; two literals may share a definition only if they have the same
 * size in bytes and the same contents.  Unit included: decl.c; linked: map, util, type.  emitdata/mkglobal stubbed. */
#include "common.h"
#include "decl.c"
void error(const struct location *loc, const char *fmt, ...) { PATH_END(); }
void fatal(const char *fmt, ...) { CHECK(0, "fatal() reached"); PATH_END(); }
void *xmalloc(size_t n) { void *p = malloc(n); ASSUME(p != 0); return p; }
void *xreallocarray(void *b, size_t n, size_t m) { void *p = malloc(n * m); ASSUME(p != 0); return p; }
static int nemit; static struct decl *emitted[2]; static unsigned long long emitted_size[2];
void emitdata(struct decl *d, struct init *i) { if (nemit < 2) { emitted[nemit] = d; emitted_size[nemit] = i->end - i->start; } nemit++; }
struct value *mkglobal(struct decl *d) { static long v[2]; static int n; return (struct value *)&v[n++ & 1]; }
struct init *mkinit(unsigned long long start, unsigned long long end, struct bitfield bits, struct expr *e) {
	static struct init in[2]; static int n; struct init *i = &in[n++ & 1]; i->start = start; i->end = end; i->expr = e; i->bits = bits; i->next = 0; return i;
}
struct token tok;
#ifndef MAXEL
#define MAXEL 3
#endif
static struct type *elem(unsigned w) { return w == 1 ? &typechar : w == 2 ? &typeushort : &typeuint; }
int main(void) {
	ND(unsigned, w1); ND(unsigned, w2); ND(unsigned, n1); ND(unsigned, n2);
	ND_ARR(unsigned char, b1, MAXEL * 4); ND_ARR(unsigned char, b2, MAXEL * 4);
	ASSUME((w1 == 1 || w1 == 2 || w1 == 4) && (w2 == 1 || w2 == 2 || w2 == 4));
	ASSUME(n1 >= 1 && n1 <= MAXEL && n2 >= 1 && n2 <= MAXEL);
	/* literal data ends with a zero element, as stringconcat produces it */
	for (unsigned i = 0; i < w1; i++) ASSUME(b1[(n1 - 1) * w1 + i] == 0);
	for (unsigned i = 0; i < w2; i++) ASSUME(b2[(n2 - 1) * w2 + i] == 0);
	struct type t1 = {.kind = TYPEARRAY, .base = elem(w1), .size = (unsigned long long)n1 * w1, .align = w1};
	struct type t2 = {.kind = TYPEARRAY, .base = elem(w2), .size = (unsigned long long)n2 * w2, .align = w2};
	struct expr e1 = {.kind = EXPRSTRING, .type = &t1}, e2 = {.kind = EXPRSTRING, .type = &t2};
	e1.u.string.size = n1; e1.u.string.data = b1;
	e2.u.string.size = n2; e2.u.string.data = b2;
	struct decl *d1 = stringdecl(&e1);
	struct decl *d2 = stringdecl(&e2);
	bool samebytes = t1.size == t2.size;
	for (unsigned i = 0; i < MAXEL * 4; i++) if (i < t1.size && i < t2.size && b1[i] != b2[i]) samebytes = false;
	WITNESS_POINT();
	CHECK(d1 && d2 && nemit >= 1 && emitted[0] == d1 && emitted_size[0] == t1.size, "first literal gets a definition of its own size");
	if (d1 == d2) CHECK(samebytes, "distinct string literals never share storage: same definition only for identical size and bytes");
	if (d1 != d2) CHECK(nemit == 2 && emitted[1] == d2 && emitted_size[1] == t2.size, "a different literal gets its own definition");
	return 0;
}
