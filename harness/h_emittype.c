/* C08: the aggregate type description handed to the backend describes the same layout as the C struct.  Members (-DSEQ, one letter each:
 * c s i l f d = char short int long float double, C S I L = bit-field in that unit with symbolic width, a = char[3], A = int[2], m = char[2][3], N = int[2][2]) go through
 * the real decl.c:addmember (linked, mangled) and the real qbe.c:emittype; the printed descriptor is decoded and laid out with QBE's rule
 * (every item naturally aligned, struct size rounded to its alignment).  Unit included: qbe.c; linked: decl, type, util. */
#include "common.h"
#include <stdarg.h>
#include "qbe.c"
struct token tok;
struct structbuilder { struct type *type; struct member **last; unsigned bits; bool pack; };
struct qualtype { struct type *type; enum typequal qual; struct expr *expr; };
void __CPROVER_file_local_decl_c_addmember(struct structbuilder *, struct qualtype, char *, int, unsigned long long);
#define addmember __CPROVER_file_local_decl_c_addmember
void error(const struct location *loc, const char *fmt, ...) { CHECK(0, "valid member sequence is not rejected"); PATH_END(); }
void fatal(const char *fmt, ...) { CHECK(0, "fatal()/internal error reached"); PATH_END(); }
void *xmalloc(size_t n) { void *p = malloc(n); ASSUME(p != 0); return p; }
#define NM (sizeof(SEQ) - 1)
#define MAXIT 8
static struct { char cls; unsigned long long n; } item[MAXIT]; static int nitem, bad, closed;
static bool streq(const char *a, const char *b) { for (int i = 0; i < 12; i++) { if (a[i] != b[i]) return false; if (!a[i]) return true; } return false; }
int printf(const char *fmt, ...) {
	va_list ap; va_start(ap, fmt);
	if (streq(fmt, " %llu")) { unsigned long long n = va_arg(ap, unsigned long long); if (nitem) item[nitem - 1].n = n; else bad = 1; }
	else if (streq(fmt, "b %llu, ")) { unsigned long long n = va_arg(ap, unsigned long long); if (nitem < MAXIT) { item[nitem].cls = 'b'; item[nitem].n = n; } nitem++; }
	else if (streq(fmt, ".%u")) (void)va_arg(ap, unsigned);
	else bad = 1;
	va_end(ap); return 0;
}
int fputs(const char *s, FILE *f) { return 0; }
int puts(const char *s) { if (streq(s, "}")) closed++; else bad = 1; return 0; }
int putchar(int c) {
	if (c == ':') return c;                                  /* sigil of the type's own name */
	if (c == 'b' || c == 'h' || c == 'w' || c == 'l' || c == 's' || c == 'd') { if (nitem < MAXIT) { item[nitem].cls = c; item[nitem].n = 1; } nitem++; }
	else bad = 1;
	return c;
}
static unsigned isz(char c) { return c == 'b' ? 1 : c == 'h' ? 2 : c == 'w' || c == 's' ? 4 : 8; }
int main(void) {
	static const char seq[] = SEQ;
	static const struct target tg = {.name = "t"}; targ = &tg;
	ND_ARR(unsigned, bw, NM);
	static struct type arrc = {.kind = TYPEARRAY, .size = 3, .align = 1}, arri = {.kind = TYPEARRAY, .size = 8, .align = 4};
	arrc.base = &typechar; arri.base = &typeint;
	static struct type arrc2 = {.kind = TYPEARRAY, .size = 6, .align = 1}, arri2 = {.kind = TYPEARRAY, .size = 16, .align = 4};     /* char[2][3], int[2][2] */
	arrc2.base = &arrc; arri2.base = &arri;
	struct type st = {.kind = TYPESTRUCT};
	st.u.structunion.tag = "s";
	struct structbuilder b = {&st, &st.u.structunion.members, 0, false};
	static char *names[] = {"m0", "m1", "m2", "m3"}; static struct type *mtype[4];
	for (unsigned i = 0; i < NM; i++) {
		char k = seq[i]; bool bf = k == 'C' || k == 'S' || k == 'I' || k == 'L';
		struct type *t = (k | 32) == 'c' ? &typeuchar : (k | 32) == 's' ? &typeushort : (k | 32) == 'i' ? &typeuint : (k | 32) == 'l' ? &typeulong
			: k == 'f' ? &typefloat : k == 'd' ? &typedouble : k == 'a' ? &arrc : &arri;
		if (k == 'a') t = &arrc; else if (k == 'A') t = &arri; else if (k == 'm') t = &arrc2; else if (k == 'N') t = &arri2;
		if (bf) ASSUME(bw[i] >= 1 && bw[i] <= t->size * 8);
		mtype[i] = t;
		addmember(&b, (struct qualtype){t, QUALNONE, 0}, names[i], 0, bf ? (unsigned long long)bw[i] : -1ull);
	}
	st.size = ALIGNUP(st.size, st.align);
	/* re-link the members as separate static objects with concrete `next` pointers (values copied from what addmember produced): the list
	 * addmember builds through `struct member **last` is read back by symex as non-constant pointers, which makes every loop of emittype
	 * unwind to its bound (58 s instead of 2 s per instance) */
	{ static struct member mm0, mm1, mm2, mm3; struct member *const mp[4] = {&mm0, &mm1, &mm2, &mm3};    /* one object per member, not an array */
	  struct member *src = st.u.structunion.members; unsigned k = 0;
	  if (NM > 0 && src) { mm0 = *src; src = src->next; k++; }
	  if (NM > 1 && src) { mm1 = *src; src = src->next; k++; }
	  if (NM > 2 && src) { mm2 = *src; src = src->next; k++; }
	  if (NM > 3 && src) { mm3 = *src; src = src->next; k++; }
	  CHECK(src == 0 && k == NM, "one member record per declared member");
	  mm0.next = NM > 1 ? &mm1 : 0; mm1.next = NM > 2 ? &mm2 : 0; mm2.next = NM > 3 ? &mm3 : 0; mm3.next = 0;
	  /* pointer-typed fields are pinned to the (asserted) concrete values */
	  for (unsigned i = 0; i < NM; i++) { CHECK(mp[i]->type == mtype[i] && mp[i]->name == names[i], "member record carries its type and name"); }
	  if (NM > 0) { mm0.type = mtype[0]; mm0.name = names[0]; } if (NM > 1) { mm1.type = mtype[1]; mm1.name = names[1]; }
	  if (NM > 2) { mm2.type = mtype[2]; mm2.name = names[2]; } if (NM > 3) { mm3.type = mtype[3]; mm3.name = names[3]; }
	  st.u.structunion.members = &mm0; }
	emittype(&st);
	WITNESS_POINT();
	CHECK(!bad && closed == 1 && nitem >= 1 && nitem <= MAXIT, "the type definition is well-formed");
	/* lay the descriptor out with the backend's rule */
	unsigned long long off = 0, start[MAXIT], al = 1;
	for (int i = 0; i < MAXIT; i++) if (i < nitem) {
		unsigned s = isz(item[i].cls);
		off = (off + s - 1) / s * s; start[i] = off; off += s * item[i].n; if (al < s) al = s;
	}
	unsigned long long total = (off + al - 1) / al * al;
	CHECK(total == st.size, "the described aggregate has the size of the C type");
	CHECK(al == (unsigned long long)st.align, "the described aggregate has the alignment of the C type");
	/* SysV classification works per eightbyte: INTEGER if any byte of it belongs to integer data, else SSE if it holds floating data.
	 * Compare the classes the C members give with the classes the description gives. */
	static char cclass[32], dclass[32];
	for (struct member *m = st.u.structunion.members; m; m = m->next) {
		struct type *e = m->type; while (e->kind == TYPEARRAY) e = e->base;
		char k = (e->prop & PROPFLOAT) && !(m->bits.before || m->bits.after) ? 'F' : 'I';
		for (unsigned long long j = m->offset; j < m->offset + m->type->size && j < 32; j++) if (cclass[j] != 'I') cclass[j] = k;
	}
	for (int i = 0; i < MAXIT; i++) if (i < nitem) {
		unsigned s = isz(item[i].cls); char k = item[i].cls == 's' || item[i].cls == 'd' ? 'F' : 'I';
		for (unsigned long long j = start[i]; j < start[i] + s * item[i].n && j < 32; j++) dclass[j] = k;
	}
	for (unsigned q = 0; q < 4; q++) {
		char cc = 0, dc = 0;
		for (unsigned j = 0; j < 8; j++) { char x = cclass[8 * q + j], y = dclass[8 * q + j]; if (x == 'I' || (x == 'F' && cc != 'I')) cc = x; if (y == 'I' || (y == 'F' && dc != 'I')) dc = y; }
		CHECK(cc == dc, "every eightbyte of the description has the register class (INTEGER / SSE / none) of the C type's members");
	}
	/* members that are not part of a bit-field storage unit keep their exact offset, size and kind */
	for (struct member *m = st.u.structunion.members; m; m = m->next) {
		bool bf = m->bits.before || m->bits.after, shared = false;
		for (struct member *o = st.u.structunion.members; o; o = o->next)
			if (o != m && (o->bits.before || o->bits.after) && o->offset < m->offset + m->type->size && m->offset < o->offset + o->type->size) shared = true;
		if (bf || shared) continue;
		struct type *e = m->type; while (e->kind == TYPEARRAY) e = e->base;
		bool found = false;
		for (int i = 0; i < MAXIT; i++) if (i < nitem) {
			unsigned s = isz(item[i].cls); unsigned long long end = start[i] + s * item[i].n;
			bool isflt = item[i].cls == 's' || item[i].cls == 'd';
			if (s == e->size && isflt == !!(e->prop & PROPFLOAT) && m->offset >= start[i] && m->offset + m->type->size <= end && (m->offset - start[i]) % s == 0) found = true;
		}
		CHECK(found, "every member outside bit-field storage units lies at its C offset in an item of its size and kind");
	}
	return 0;
}
