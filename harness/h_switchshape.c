/* C15: switch dispatch over every AVL shape.  Each case constant (symbolic integer type and value) goes through the
 * real switchcase() once (into its own empty index) so that the stored key is whatever the real code makes of it;
 * the resulting nodes are then linked into the concrete AVL shape given by shape.inc (keys must be in tree order:
 * the invariant treeinsert maintains, proved by the tree.* instances).  The real funcswitch()/casesearch() lowers
 * the tree; the ladder is executed by il.h on a symbolic controlling value.
 * Unit included: qbe.c; linked: tree, util, type. -DCTRL: 0 int, 1 unsigned, 2 long, 3 unsigned long. */
#include "common.h"
#include "qbe.c"
#include "il.h"
#include "shape.inc"     /* NNODES, HEIGHT, LINK() using nodes nd[j] (in-order index j) */
struct token tok;
void error(const struct location *loc, const char *fmt, ...) { CHECK(0, "a single case label in a fresh switch is never rejected"); PATH_END(); }
void fatal(const char *fmt, ...) { CHECK(0, "fatal() reached"); PATH_END(); }
void *xmalloc(size_t n) { void *p = malloc(n); ASSUME(p != 0); return p; }
#if CTRL == 0
#define CT typeint
#define CONV(x) ((unsigned long long)(long long)(int)(x))
#elif CTRL == 1
#define CT typeuint
#define CONV(x) ((unsigned long long)(unsigned)(x))
#elif CTRL == 2
#define CT typelong
#define CONV(x) ((unsigned long long)(x))
#else
#define CT typeulong
#define CONV(x) ((unsigned long long)(x))
#endif
static unsigned long long carrier(unsigned kt, unsigned long long raw) {
	switch (kt) {
	case 0: return (unsigned long long)(long long)(int)raw;
	case 1: return (unsigned)raw;
	default: return raw;
	}
}
NODE_DECLS     /* static struct switchcase nd0, nd1, ...: the nodes of the shape, one object each */
static struct switchcase *const nd[NNODES + 1] = { NODE_PTRS 0 };
int main(void) {
	ND_ARR(unsigned long long, raw, NNODES + 1);
	ND_ARR(unsigned, kt, NNODES + 1);
	ND(unsigned long long, probe);
	struct block *body[NNODES + 1], *dflt = mkblock("default");
	unsigned long long cv[NNODES + 1];
	for (int i = 0; i < NNODES; i++) {
		ASSUME(kt[i] < 3);
		unsigned long long c = carrier(kt[i], raw[i]);
		cv[i] = CONV(c);
		struct switchcases one = {0, &CT, 0};
		body[i] = mkblock("case");
		switchcase(&one, c, body[i]);
		struct switchcase *made = one.root;
		CHECK(made && made->body == body[i], "case label is recorded with its body block");
		nd[i]->node.key = made->node.key;      /* the key exactly as the real code stores it */
		nd[i]->body = body[i];
	}
	for (int i = 0; i < NNODES; i++) for (int j = 0; j < i; j++)
		CHECK((cv[i] == cv[j]) == (nd[i]->node.key == nd[j]->node.key), "stored case keys coincide exactly when the converted constants do (duplicate detection)");
	for (int i = 0; i + 1 < NNODES; i++) ASSUME(nd[i]->node.key < nd[i + 1]->node.key);   /* tree order over stored keys */
	struct switchcases cases = {0, &CT, 0};
	LINK();
	struct func f = {0};
	f.start = f.end = mkblock("start");
	struct value v = {.kind = VALUE_TEMP, .id = 1};
	f.lastid = 1;
	il_tc[1] = CT.size == 8 ? 'l' : 'w';
	il_tv[1] = CT.size == 8 ? probe : (unsigned)probe;
	funcswitch(&f, &v, &cases, dflt);
	for (int i = 0; i < NNODES; i++) il_stops[i] = body[i];
	il_stops[NNODES] = dflt;
	il_run(f.start, 0, 0);
	WITNESS_POINT();
	CHECK(IL_WELLFORMED(), "ladder is well-formed IL (classes, definitions)");
	CHECK(il_endkind == -1, "control reaches a case body or the default label");
	struct block *want = dflt;
	for (int i = 0; i < NNODES; i++) if (cv[i] == CONV(probe)) want = body[i];
	CHECK(il_exit_block == want, "switch transfers control to exactly the case whose converted constant equals the value, else default");
	CHECK(il_nblocks_run <= 3 * HEIGHT + 2, "search depth is bounded by the AVL height (logarithmic)");
	return 0;
}
