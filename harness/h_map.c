/* C16: one mapput() step from an arbitrary valid open-addressing table (map.c included).
 * CAP slots, every slot symbolic (occupied, key byte, unconstrained hash value) under the representation invariant;
 * -DGROW selects the pre-state that triggers the rehash. */
#include "common.h"
#include "map.c"
#ifndef CAP
#define CAP 4
#endif
void fatal(const char *fmt, ...) { CHECK(0, "fatal() reached"); PATH_END(); }
void *xreallocarray(void *b, size_t n, size_t m) { void *p = malloc(n * m); ASSUME(p != 0); return p; }
static unsigned char sk[CAP]; static unsigned long sh[CAP]; static bool occ[CAP]; static int store[CAP + 1];
int main(void) {
	ND_ARR(bool, o, CAP); ND_ARR(unsigned char, kb, CAP); ND_ARR(unsigned long, hv, CAP);
	ND(unsigned char, qk); ND(unsigned long, qh);
	struct map m; m.cap = CAP; m.len = 0;
	m.keys = malloc(CAP * sizeof *m.keys); m.vals = malloc(CAP * sizeof *m.vals);
	ASSUME(m.keys && m.vals);
	for (unsigned s = 0; s < CAP; s++) {
		occ[s] = o[s]; sk[s] = kb[s]; sh[s] = hv[s];
		if (occ[s]) { m.keys[s].str = &sk[s]; m.keys[s].len = 1; m.keys[s].hash = sh[s]; m.vals[s] = &store[s]; m.len++; }
		else { m.keys[s].str = NULL; m.vals[s] = NULL; }
	}
	/* representation invariant: keys pairwise distinct; equal bytes would have equal hashes (hash is a function of the key) */
	for (unsigned s = 0; s < CAP; s++) for (unsigned t = 0; t < s; t++) if (occ[s] && occ[t]) ASSUME(sk[s] != sk[t]);
#ifdef GROW
	ASSUME(m.len == CAP / 2 + 1);
#else
	ASSUME(m.len <= CAP / 2);
#endif
	/* every stored key is reachable from its home slot without crossing an empty slot (linear probing, wrap-around) */
	for (unsigned s = 0; s < CAP; s++) if (occ[s])
		for (unsigned p = sh[s] & (CAP - 1), n = 0; p != s && n < CAP; p = (p + 1) & (CAP - 1), n++) ASSUME(occ[p]);
	int hit = -1;
	for (unsigned s = 0; s < CAP; s++) if (occ[s] && sk[s] == qk) { hit = s; ASSUME(qh == sh[s]); }
	struct mapkey k = {qh, &qk, 1};
	size_t oldlen = m.len;
	void **slot = mapput(&m, &k);
	WITNESS_POINT();
	CHECK(hit >= 0 ? *slot == &store[hit] : *slot == NULL, "mapput yields the old value of a present key, a fresh NULL entry otherwise");
	CHECK(m.len == oldlen + (hit < 0), "len counts distinct keys");
	CHECK((m.cap & (m.cap - 1)) == 0 && m.len <= m.cap / 2 + 1 && m.len < m.cap, "table keeps a power-of-two capacity with free slots");
	*slot = &store[CAP];
	for (unsigned s = 0; s < CAP; s++) if (occ[s] && (int)s != hit) {
		struct mapkey ks = {sh[s], &sk[s], 1};
		CHECK(mapget(&m, &ks) == &store[s], "every other key still resolves to its own value (also across the rehash, whatever the collisions)");
	}
	CHECK(mapget(&m, &k) == &store[CAP], "the put key resolves to the stored value");
	ND(unsigned char, zk); ND(unsigned long, zh);
	bool present = zk == qk;
	for (unsigned s = 0; s < CAP; s++) if (occ[s] && sk[s] == zk) { present = true; ASSUME(zh == sh[s]); }
	if (zk == qk) ASSUME(zh == qh);
	struct mapkey kz = {zh, &zk, 1};
	if (!present) CHECK(mapget(&m, &kz) == NULL, "a key that was never inserted is not found, whatever its hash collides with");
	return 0;
}
