/* C20: constructors hand back objects whose consumer-visible fields are a function of the arguments only, whatever the allocator returns.
 * Each constructor is run twice on the same (symbolic) arguments; CBMC gives every malloc fresh nondeterministic contents, xmalloc below
 * additionally fills the block with symbolic garbage explicitly.  Units linked: type, decl, expr, util(xmalloc overridden). */
#include "common.h"
#include "util.h"
#include "cc.h"
struct token tok;
struct expr *__CPROVER_file_local_expr_c_mkexpr(enum exprkind, struct type *, struct expr *);
struct expr *__CPROVER_file_local_expr_c_mkconstexpr(struct type *, unsigned long long);
#define mkexpr __CPROVER_file_local_expr_c_mkexpr
#define mkconstexpr __CPROVER_file_local_expr_c_mkconstexpr
void error(const struct location *loc, const char *fmt, ...) { PATH_END(); }
void fatal(const char *fmt, ...) { PATH_END(); }
unsigned char nondet_garbage(void);
void *xmalloc(size_t n) {
	unsigned char *p = malloc(n); ASSUME(p != 0);
	for (size_t i = 0; i < n && i < 160; i++) p[i] = nondet_garbage();       /* allocator returns arbitrary bytes (MALLOC_PERTURB_, reuse) */
	return p;
}
int main(void) {
	ND(unsigned, qual); ND(unsigned long long, len); ND(unsigned long long, cval); ND(unsigned, kind); ND(unsigned, lk);
	ASSUME(qual < 32 && kind <= DECLBUILTIN && lk <= LINKEXTERN && len < (1ull << 40));
	static char nm[] = "x";
	struct type *p1 = mkpointertype(&typeint, qual), *p2 = mkpointertype(&typeint, qual);
	CHECK(p1->kind == p2->kind && p1->prop == p2->prop && p1->base == p2->base && p1->qual == p2->qual && p1->size == p2->size && p1->align == p2->align
		&& p1->value == p2->value && p1->incomplete == p2->incomplete && p1->flexible == p2->flexible, "pointer type: every field the compiler later reads is determined by the arguments");
	struct type *a1 = mkarraytype(&typeint, qual, len), *a2 = mkarraytype(&typeint, qual, len);
	CHECK(a1->kind == a2->kind && a1->prop == a2->prop && a1->base == a2->base && a1->qual == a2->qual && a1->size == a2->size && a1->align == a2->align && a1->value == a2->value
		&& a1->incomplete == a2->incomplete && a1->flexible == a2->flexible && a1->u.array.length == a2->u.array.length && a1->u.array.ptrqual == a2->u.array.ptrqual,
		"array type: every field the compiler later reads is determined by the arguments");
	struct decl *d1 = mkdecl(nm, kind, &typeint, qual, lk), *d2 = mkdecl(nm, kind, &typeint, qual, lk);
	CHECK(memcmp(d1, d2, sizeof *d1) == 0, "declaration: all bytes are determined by the arguments");
	struct expr *e1 = mkconstexpr(&typeint, cval), *e2 = mkconstexpr(&typeint, cval);
	CHECK(e1->kind == e2->kind && e1->lvalue == e2->lvalue && e1->decayed == e2->decayed && e1->type == e2->type && e1->qual == e2->qual && e1->base == e2->base
		&& e1->next == e2->next && e1->toeval == e2->toeval && e1->u.constant.u == e2->u.constant.u, "expression node: every common field and the constant are determined by the arguments");
	WITNESS_POINT();
	return 0;
}
