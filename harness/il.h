/* Executable semantics of the QBE IL subset cproc emits, over cproc's own in-memory IL (struct func / block / inst
 * of qbe.c, which the including harness has #included).  Used as the run-time side of C01/C03/C04/C07/C15 harnesses.
 * Written from the QBE IL reference (doc/il.txt of QBE 1.x):
 *  - class w instructions operate on the low 32 bits, class l on 64 bits; s/d are IEEE single/double
 *  - a temporary of class l may be used where w is expected (low bits); the converse is a class error
 *  - comparisons yield 0/1; ext* take a w argument; shifts use the count modulo the operand width
 * The interpreter also *checks* the class rules (IL_CLASS_CHECK), which is the C03 obligation.
 */
#ifndef MAXT
#define MAXT 96
#endif
#ifndef IL_MAXDEPTH
#define IL_MAXDEPTH 24
#endif
static unsigned long long il_tv[MAXT];     /* temp values (bit patterns) */
static char il_tc[MAXT];                   /* temp classes: 0 = undefined */
static int il_class_errors, il_undef_uses, il_unmodelled, il_nblocks_run, il_redefs;
static bool il_allow_redef;            /* set by harnesses that execute loops: a temporary is then assigned once per iteration */
static struct inst **il_cur_ip; static size_t il_cur_left;      /* position of the instruction being executed (a call finds its IARG successors there) */
static struct block *il_exit_block;        /* block whose jump ended the run */
static struct value *il_ret;               /* value returned by JUMP_RET, if any */
static int il_endkind;                     /* JUMP_* kind that ended the run, or -1 when stopped at il_stop_at */
#ifndef IL_NSTOP
#define IL_NSTOP 12
#endif
static struct block *il_stops[IL_NSTOP];   /* harness-defined: stop when control reaches one of these blocks */

/* CBMC: instruction arrays (struct array of struct inst *) are grown with realloc(); pointers stored into the byte
 * array CBMC's realloc model returns are read back as byte_extract expressions, which makes every in->kind symbolic
 * (148k symex steps per interpreted instruction, measured).  This stub hands out typed pointer arrays instead: the
 * rows of 128 pointers; arrayadd's doubling (256, 512, 1024 bytes) grows in place, beyond that the path ends.  Replays use
 * the real realloc. */
#if !defined(REPLAY) && !defined(IL_NO_POOL)
#ifndef IL_NPOOL
#define IL_NPOOL 40
#endif
static void *il_pool[IL_NPOOL][128]; static int il_pool_used;
void *realloc(void *p, size_t n) {
	if (n > sizeof il_pool[0]) PATH_END();          /* more than 128 instructions in one block: outside the harness bounds */
	if (p) return p;                                 /* growth in place: every row already has the maximum size */
	if (il_pool_used >= IL_NPOOL) PATH_END();
	return il_pool[il_pool_used++];
}
#endif

#ifndef IL_GLOBAL_ADDR
#define IL_GLOBAL_ADDR(v) 0ull
#endif

static float il_f32(unsigned long long b) { unsigned u = (unsigned)b; float f; memcpy(&f, &u, 4); return f; }
static double il_f64(unsigned long long b) { double d; memcpy(&d, &b, 8); return d; }
static unsigned long long il_b32(float f) { unsigned u; memcpy(&u, &f, 4); return u; }
static unsigned long long il_b64(double d) { unsigned long long u; memcpy(&u, &d, 8); return u; }

/* value of an operand used at class `want` ('w','l','s','d'; 'm' = memory address = l) */
static unsigned long long il_val(struct value *v, int want) {
	unsigned long long x = 0;
	if (want == 'm') want = 'l';
	if (!v) { il_undef_uses++; return 0; }
	switch (v->kind & 0xf) {
	case VALUE_INTCONST:
		x = v->u.i;
		if (want == 's') { il_class_errors++; }
		break;
	case VALUE_FLTCONST: x = il_b32((float)v->u.f); if (want != 's') il_class_errors++; break;
	case VALUE_DBLCONST: x = il_b64(v->u.f); if (want != 'd') il_class_errors++; break;
	case VALUE_GLOBAL: x = IL_GLOBAL_ADDR(v); if (want != 'l') il_class_errors++; break;
	case VALUE_TEMP:
		if (v->id == 0 || v->id >= MAXT) { il_unmodelled++; return 0; }
		if (!il_tc[v->id]) il_undef_uses++;
		x = il_tv[v->id];
		{
			int have = il_tc[v->id];
			bool ok = have == want || (have == 'l' && want == 'w');
			if (have && !ok) il_class_errors++;
		}
		break;
	default: il_unmodelled++; break;
	}
	return want == 'w' || want == 's' ? (unsigned)x : x;
}
static void il_def(struct value *res, int class, unsigned long long x) {
	if (res->kind != VALUE_TEMP || res->id == 0 || res->id >= MAXT) { il_unmodelled++; return; }
	if (il_tc[res->id] && !il_allow_redef) il_redefs++;
	il_tc[res->id] = class;
	il_tv[res->id] = class == 'w' || class == 's' ? (unsigned)x : x;
}

#ifndef IL_CALL
#define IL_CALL(in) (il_unmodelled++, 0ull)
#endif
#ifndef IL_ALLOC
static unsigned char il_arena[256] __attribute__((aligned(16)));
static unsigned long long il_arena_used;
static unsigned long long il_alloc(unsigned long long n, unsigned align) {
	unsigned long long p = (il_arena_used + align - 1) / align * align;
	if (p + n > sizeof il_arena) { il_unmodelled++; return 0; }
	il_arena_used = p + n;
	return (unsigned long long)(uintptr_t)&il_arena[p];
}
#define IL_ALLOC(n, a) il_alloc(n, a)
#endif

static void il_inst(struct inst *in) {
	int c = in->class;
	unsigned long long r = 0;
	int k = in->kind;
	switch (k) {
#define IL_BIN(K, EW, EL) case K: { unsigned x = il_val(in->arg[0], c), y = il_val(in->arg[1], c); \
	unsigned long long X = il_val(in->arg[0], c), Y = il_val(in->arg[1], c); (void)x; (void)y; (void)X; (void)Y; \
	if (c != 'w' && c != 'l') il_class_errors++; \
	r = c == 'w' ? (unsigned long long)(unsigned)(EW) : (unsigned long long)(EL); } break;
	case IADD: case ISUB: case IMUL:
		if (c == 's') { float x = il_f32(il_val(in->arg[0], 's')), y = il_f32(il_val(in->arg[1], 's')); r = il_b32(k == IADD ? x + y : k == ISUB ? x - y : x * y); }
		else if (c == 'd') { double x = il_f64(il_val(in->arg[0], 'd')), y = il_f64(il_val(in->arg[1], 'd')); r = il_b64(k == IADD ? x + y : k == ISUB ? x - y : x * y); }
		else { unsigned long long X = il_val(in->arg[0], c), Y = il_val(in->arg[1], c); if (c != 'w' && c != 'l') il_class_errors++; r = k == IADD ? X + Y : k == ISUB ? X - Y : X * Y; }
		break;
	case IDIV:
		if (c == 's') { float x = il_f32(il_val(in->arg[0], 's')), y = il_f32(il_val(in->arg[1], 's')); r = il_b32(x / y); }
		else if (c == 'd') { double x = il_f64(il_val(in->arg[0], 'd')), y = il_f64(il_val(in->arg[1], 'd')); r = il_b64(x / y); }
		else if (c == 'w') { int x = (int)il_val(in->arg[0], 'w'), y = (int)il_val(in->arg[1], 'w'); r = (unsigned)(y == 0 || (y == -1 && x == (-2147483647 - 1)) ? 0 : x / y); }
		else { long long x = (long long)il_val(in->arg[0], 'l'), y = (long long)il_val(in->arg[1], 'l'); r = y == 0 || (y == -1 && x == (-9223372036854775807LL - 1)) ? 0 : x / y; }
		break;
	case IREM:
		if (c == 'w') { int x = (int)il_val(in->arg[0], 'w'), y = (int)il_val(in->arg[1], 'w'); r = (unsigned)(y == 0 || y == -1 ? 0 : x % y); }
		else { long long x = (long long)il_val(in->arg[0], 'l'), y = (long long)il_val(in->arg[1], 'l'); r = y == 0 || y == -1 ? 0 : x % y; }
		break;
	IL_BIN(IUDIV, y ? x / y : 0, Y ? X / Y : 0)
	IL_BIN(IUREM, y ? x % y : 0, Y ? X % Y : 0)
	IL_BIN(IAND, x & y, X & Y) IL_BIN(IOR, x | y, X | Y) IL_BIN(IXOR, x ^ y, X ^ Y)
	case ISHL: { unsigned long long X = il_val(in->arg[0], c); unsigned n = il_val(in->arg[1], 'w'); r = c == 'w' ? (unsigned)X << (n & 31) : X << (n & 63); } break;
	case ISHR: { unsigned long long X = il_val(in->arg[0], c); unsigned n = il_val(in->arg[1], 'w'); r = c == 'w' ? (unsigned)X >> (n & 31) : X >> (n & 63); } break;
	case ISAR: { unsigned long long X = il_val(in->arg[0], c); unsigned n = il_val(in->arg[1], 'w');
		if (c == 'w') { int sx = (int)(unsigned)X; unsigned m = n & 31; r = (unsigned)(sx < 0 ? ~(~(unsigned)sx >> m) : (unsigned)sx >> m); }
		else { long long sx = (long long)X; unsigned m = n & 63; r = sx < 0 ? ~(~(unsigned long long)sx >> m) : (unsigned long long)sx >> m; } } break;
	case INEG:
		if (c == 's') r = il_b32(-il_f32(il_val(in->arg[0], 's')));
		else if (c == 'd') r = il_b64(-il_f64(il_val(in->arg[0], 'd')));
		else r = 0 - il_val(in->arg[0], c);
		break;
	case IEXTSW: r = (unsigned long long)(long long)(int)il_val(in->arg[0], 'w'); if (c != 'l') il_class_errors++; break;
	case IEXTUW: r = (unsigned)il_val(in->arg[0], 'w'); if (c != 'l') il_class_errors++; break;
	case IEXTSH: r = (unsigned long long)(long long)(short)il_val(in->arg[0], 'w'); break;
	case IEXTUH: r = (unsigned short)il_val(in->arg[0], 'w'); break;
	case IEXTSB: r = (unsigned long long)(long long)(signed char)il_val(in->arg[0], 'w'); break;
	case IEXTUB: r = (unsigned char)il_val(in->arg[0], 'w'); break;
#define IL_CMP(K, CL, E) case K: { unsigned x = il_val(in->arg[0], CL), y = il_val(in->arg[1], CL); \
	unsigned long long X = il_val(in->arg[0], CL), Y = il_val(in->arg[1], CL); (void)x; (void)y; (void)X; (void)Y; \
	if (c != 'w' && c != 'l') il_class_errors++; r = (E); } break;
	IL_CMP(ICEQW, 'w', x == y) IL_CMP(ICNEW, 'w', x != y) IL_CMP(ICSLTW, 'w', (int)x < (int)y) IL_CMP(ICULTW, 'w', x < y)
	IL_CMP(ICSLEW, 'w', (int)x <= (int)y) IL_CMP(ICULEW, 'w', x <= y) IL_CMP(ICSGTW, 'w', (int)x > (int)y) IL_CMP(ICUGTW, 'w', x > y)
	IL_CMP(ICSGEW, 'w', (int)x >= (int)y) IL_CMP(ICUGEW, 'w', x >= y)
	IL_CMP(ICEQL, 'l', X == Y) IL_CMP(ICNEL, 'l', X != Y) IL_CMP(ICSLTL, 'l', (long long)X < (long long)Y) IL_CMP(ICULTL, 'l', X < Y)
	IL_CMP(ICSLEL, 'l', (long long)X <= (long long)Y) IL_CMP(ICULEL, 'l', X <= Y) IL_CMP(ICSGTL, 'l', (long long)X > (long long)Y)
	IL_CMP(ICUGTL, 'l', X > Y) IL_CMP(ICSGEL, 'l', (long long)X >= (long long)Y) IL_CMP(ICUGEL, 'l', X >= Y)
#define IL_FCMP(KS, KD, OPR) case KS: r = il_f32(il_val(in->arg[0], 's')) OPR il_f32(il_val(in->arg[1], 's')); break; \
	case KD: r = il_f64(il_val(in->arg[0], 'd')) OPR il_f64(il_val(in->arg[1], 'd')); break;
	IL_FCMP(ICEQS, ICEQD, ==) IL_FCMP(ICNES, ICNED, !=) IL_FCMP(ICLTS, ICLTD, <) IL_FCMP(ICLES, ICLED, <=)
	IL_FCMP(ICGTS, ICGTD, >) IL_FCMP(ICGES, ICGED, >=)
	/* conversions */
	case IEXTS: r = il_b64((double)il_f32(il_val(in->arg[0], 's'))); if (c != 'd') il_class_errors++; break;
	case ITRUNCD: r = il_b32((float)il_f64(il_val(in->arg[0], 'd'))); if (c != 's') il_class_errors++; break;
	case ISTOSI: { float f = il_f32(il_val(in->arg[0], 's')); r = c == 'w' ? (unsigned long long)(unsigned)(int)f : (unsigned long long)(long long)f; } break;
	case ISTOUI: { float f = il_f32(il_val(in->arg[0], 's')); r = c == 'w' ? (unsigned long long)(unsigned)f : (unsigned long long)f; } break;
	case IDTOSI: { double f = il_f64(il_val(in->arg[0], 'd')); r = c == 'w' ? (unsigned long long)(unsigned)(int)f : (unsigned long long)(long long)f; } break;
	case IDTOUI: { double f = il_f64(il_val(in->arg[0], 'd')); r = c == 'w' ? (unsigned long long)(unsigned)f : (unsigned long long)f; } break;
	case ISWTOF: { int x = (int)il_val(in->arg[0], 'w'); r = c == 's' ? il_b32((float)x) : il_b64((double)x); } break;
	case IUWTOF: { unsigned x = il_val(in->arg[0], 'w'); r = c == 's' ? il_b32((float)x) : il_b64((double)x); } break;
	case ISLTOF: { long long x = (long long)il_val(in->arg[0], 'l'); r = c == 's' ? il_b32((float)x) : il_b64((double)x); } break;
	case IULTOF: { unsigned long long x = il_val(in->arg[0], 'l'); r = c == 's' ? il_b32((float)x) : il_b64((double)x); } break;
	case ICOPY: r = il_val(in->arg[0], c); break;
	/* memory */
	case ILOADUB: r = *(unsigned char *)(uintptr_t)il_val(in->arg[0], 'm'); break;
	case ILOADSB: r = (unsigned long long)(long long)*(signed char *)(uintptr_t)il_val(in->arg[0], 'm'); break;
	case ILOADUH: r = *(unsigned short *)(uintptr_t)il_val(in->arg[0], 'm'); break;
	case ILOADSH: r = (unsigned long long)(long long)*(short *)(uintptr_t)il_val(in->arg[0], 'm'); break;
	case ILOADW: r = (unsigned long long)(long long)*(int *)(uintptr_t)il_val(in->arg[0], 'm'); break;
	case ILOADL: r = *(unsigned long long *)(uintptr_t)il_val(in->arg[0], 'm'); if (c != 'l') il_class_errors++; break;
	case ILOADS: r = *(unsigned *)(uintptr_t)il_val(in->arg[0], 'm'); if (c != 's') il_class_errors++; break;
	case ILOADD: r = *(unsigned long long *)(uintptr_t)il_val(in->arg[0], 'm'); if (c != 'd') il_class_errors++; break;
	case ISTOREB: *(unsigned char *)(uintptr_t)il_val(in->arg[1], 'm') = (unsigned char)il_val(in->arg[0], 'w'); if (c) il_class_errors++; return;
	case ISTOREH: *(unsigned short *)(uintptr_t)il_val(in->arg[1], 'm') = (unsigned short)il_val(in->arg[0], 'w'); if (c) il_class_errors++; return;
	case ISTOREW: *(unsigned *)(uintptr_t)il_val(in->arg[1], 'm') = (unsigned)il_val(in->arg[0], 'w'); if (c) il_class_errors++; return;
	case ISTOREL: *(unsigned long long *)(uintptr_t)il_val(in->arg[1], 'm') = il_val(in->arg[0], 'l'); if (c) il_class_errors++; return;
	case ISTORES: *(unsigned *)(uintptr_t)il_val(in->arg[1], 'm') = (unsigned)il_val(in->arg[0], 's'); if (c) il_class_errors++; return;
	case ISTORED: *(unsigned long long *)(uintptr_t)il_val(in->arg[1], 'm') = il_val(in->arg[0], 'd'); if (c) il_class_errors++; return;
	case IALLOC4: r = IL_ALLOC(il_val(in->arg[0], 'l'), 4); if (c != 'l') il_class_errors++; break;
	case IALLOC8: r = IL_ALLOC(il_val(in->arg[0], 'l'), 8); if (c != 'l') il_class_errors++; break;
	case IALLOC16: r = IL_ALLOC(il_val(in->arg[0], 'l'), 16); if (c != 'l') il_class_errors++; break;
	case ICALL: r = IL_CALL(in); if (!c) return; break;
	case IARG: case IVARARG: return;
	default: il_unmodelled++; return;
	}
	if (!c) { il_class_errors++; return; }
	il_def(&in->res, c, r);
}

static bool il_is_stop(struct block *b) {
	for (int i = 0; i < IL_NSTOP; i++) if (b && il_stops[i] == b) return true;
	return false;
}
/* run from block b (entered from pred) until a terminator other than jmp/jnz, or a stop block.  Straight-line control flow (fall-through,
 * jmp) is followed in a loop; only a conditional branch recurses (one path per outcome). */
#ifndef IL_MAXBLOCKS
#define IL_MAXBLOCKS 64
#endif
static void il_run(struct block *b, struct block *pred, int depth) {
	struct inst **ip;
	for (int nb = 0; nb < IL_MAXBLOCKS; nb++) {
		if (depth > IL_MAXDEPTH || !b) { il_unmodelled++; return; }
		if (il_is_stop(b)) { il_exit_block = b; il_endkind = -1; return; }
		il_nblocks_run++;
		if (b->phi.res.kind) {
			int i = pred == b->phi.blk[0] ? 0 : pred == b->phi.blk[1] ? 1 : -1;
			if (i < 0) { il_class_errors++; }
			else il_def(&b->phi.res, b->phi.class, il_val(b->phi.val[i], b->phi.class));
		}
		/* index-based: the byte length of the instruction array is a concrete integer, while arrayforeach's pointer comparison is
		 * not always simplified by symex (then every extra unwinding interprets a garbage instruction symbolically) */
		{ size_t n_ = b->insts.len / sizeof(struct inst *); ip = b->insts.val; for (size_t i_ = 0; i_ < n_; i_++) { il_cur_ip = ip + i_; il_cur_left = n_ - i_; il_inst(ip[i_]); } }
		switch (b->jump.kind) {
		case JUMP_NONE: pred = b; b = b->next; continue;       /* fall through to the next block */
		case JUMP_JMP: pred = b; b = b->jump.blk[0]; continue;
		case JUMP_JNZ:
			if ((unsigned)il_val(b->jump.arg, 'w')) il_run(b->jump.blk[0], b, depth + 1);
			else il_run(b->jump.blk[1], b, depth + 1);
			return;
		case JUMP_RET: il_exit_block = b; il_endkind = JUMP_RET; il_ret = b->jump.arg; return;
		case JUMP_HLT: il_exit_block = b; il_endkind = JUMP_HLT; return;
		}
	}
	il_unmodelled++;      /* more straight-line blocks than the harness bound */
}
/* static control-flow well-formedness of a whole function, executed or not: every jump names a block of the function, every block is
 * terminated or falls through to a following block, and both sources of every phi are blocks that actually precede it */
#ifndef IL_CFG_MAXB
#define IL_CFG_MAXB 48
#endif
static bool il_cfg_has(struct block *start, struct block *x) {
	struct block *b = start;
	for (int i = 0; i < IL_CFG_MAXB && b; i++, b = b->next) if (b == x) return true;
	return false;
}
static bool il_cfg_pred(struct block *p, struct block *b) {      /* does control flow from p to b? */
	switch (p->jump.kind) {
	case JUMP_NONE: return p->next == b;
	case JUMP_JMP: return p->jump.blk[0] == b;
	case JUMP_JNZ: return p->jump.blk[0] == b || p->jump.blk[1] == b;
	default: return false;
	}
}
static int il_cfg_errors(struct block *start) {
	int err = 0; struct block *b = start;
	for (int i = 0; i < IL_CFG_MAXB && b; i++, b = b->next) {
		if (b->jump.kind == JUMP_JMP && !il_cfg_has(start, b->jump.blk[0])) err++;
		if (b->jump.kind == JUMP_JNZ && (!il_cfg_has(start, b->jump.blk[0]) || !il_cfg_has(start, b->jump.blk[1]) || !b->jump.arg)) err++;
		if (b->jump.kind == JUMP_NONE && !b->next) err++;                    /* the last block must end in ret/hlt/jmp */
		if (b->phi.res.kind) {
			for (int k = 0; k < 2; k++)
				if (!b->phi.blk[k] || !il_cfg_has(start, b->phi.blk[k]) || !il_cfg_pred(b->phi.blk[k], b) || !b->phi.val[k]) err++;
		}
	}
	if (b) il_unmodelled++;        /* more blocks than the bound */
	return err;
}
#define IL_WELLFORMED() (il_class_errors == 0 && il_undef_uses == 0 && il_unmodelled == 0 && il_redefs == 0)
