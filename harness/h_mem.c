/* C01 (memory operations of the back end): qbe.c statics lowered into IL and executed by il.h on real memory.
 * MODE 1  bit-field store + load (funcstore/funcload/funcbits): unit size -DUSZ, signedness -DSGN, position -DBEFORE, width -DWIDTH; symbolic value/old contents
 * MODE 2  aggregate copy (funccopy): -DALIGN, -DSIZE; symbolic contents
 * MODE 3  zero fill (zero): -DALIGN, gap [-DOFF,-DEND); symbolic previous contents
 * MODE 4  over-aligned stack allocation (funcalloc): -DALIGN in {1..64}, symbolic size, symbolic 16-aligned stack address
 * Unit included: qbe.c; linked: type, util. */
#include "common.h"
#include "qbe.c"
#if MODE == 4
static unsigned long long alloc_base, alloc_size, alloc_calls, alloc_align;
#define IL_ALLOC(n, a) (alloc_calls++, alloc_size = (n), alloc_align = (a), alloc_base)
#endif
#include "il.h"
struct token tok;
void error(const struct location *loc, const char *fmt, ...) { CHECK(0, "no diagnostic for a plain store/copy"); PATH_END(); }
void fatal(const char *fmt, ...) { CHECK(0, "fatal()/internal error reached"); PATH_END(); }
void *xmalloc(size_t n) { void *p = malloc(n); ASSUME(p != 0); return p; }
static struct value *addrconst(void *p) { return mkintconst((unsigned long long)(uintptr_t)p); }

int main(void) {
	struct func f = {0};
	f.start = f.end = mkblock("start");
#if MODE == 1
	struct type *t = USZ == 1 ? (SGN ? &typeschar : &typeuchar) : USZ == 2 ? (SGN ? &typeshort : &typeushort) : USZ == 4 ? (SGN ? &typeint : &typeuint) : (SGN ? &typelong : &typeulong);
	/* bit position and width are concrete per instance (they decide which instructions are emitted); value and old contents are symbolic */
	const unsigned before = BEFORE, width = WIDTH; ND(unsigned long long, val); ND(unsigned long long, old);
	ASSUME(width >= 1 && width <= USZ * 8 && before <= USZ * 8 && before + width <= USZ * 8);
	ASSUME(width < USZ * 8 || before == 0);
	static unsigned long long mem[3];                      /* guard, unit, guard */
	ND(unsigned long long, g0); ND(unsigned long long, g1);
	mem[0] = g0; mem[1] = old; mem[2] = g1;
	struct lvalue lv = {addrconst(&mem[1]), {before, USZ * 8 - width - before}};
	/* the value stored has already been converted to the bit-field's declared type by the front end */
	unsigned long long carrier = USZ == 8 ? val : SGN ? (unsigned long long)(long long)(USZ == 1 ? (signed char)val : USZ == 2 ? (short)val : (int)val)
		: (USZ == 1 ? (unsigned char)val : USZ == 2 ? (unsigned short)val : (unsigned)val);
	struct value *r = funcstore(&f, t, QUALNONE, lv, mkintconst(carrier));
	struct value *l = funcload(&f, t, lv);
	funcret(&f, l);
	il_run(f.start, 0, 0);
	WITNESS_POINT();
	CHECK(IL_WELLFORMED(), "emitted IL is well-formed (classes, single definitions)");
	unsigned long long mask = (width == 64 ? ~0ull : ((1ull << width) - 1)) << before;
	unsigned long long unitmask = USZ == 8 ? ~0ull : ((1ull << (USZ * 8)) - 1);
	unsigned long long want_unit = ((old & ~mask) | ((val << before) & mask)) & unitmask;
	CHECK((mem[1] & unitmask) == want_unit, "bit-field store replaces exactly the field's bits in its storage unit");
	CHECK((mem[1] & ~unitmask) == (old & ~unitmask) && mem[0] == g0 && mem[2] == g1, "nothing outside the storage unit is written");
	unsigned long long field = (val & (width == 64 ? ~0ull : ((1ull << width) - 1)));
	unsigned long long want_val = SGN && width < 64 && (field >> (width - 1) & 1) ? field | (~0ull << width) : field;
	int cls = USZ == 8 ? 'l' : 'w';
	unsigned long long got = il_val(l, cls), gotr = il_val(r, cls);
	if (cls == 'w') { CHECK((unsigned)got == (unsigned)want_val, "bit-field load yields the stored value, sign- or zero-extended from its width"); CHECK((unsigned)gotr == (unsigned)want_val, "value of the assignment is the value of the bit-field after the store"); }
	else { CHECK(got == want_val, "bit-field load yields the stored value, sign- or zero-extended from its width"); CHECK(gotr == want_val, "value of the assignment is the value of the bit-field after the store"); }
#elif MODE == 2
	const unsigned size = SIZE;      /* concrete per instance (decides the number of emitted load/store pairs); contents symbolic */
	static unsigned char src[48] __attribute__((aligned(16))), dst[48] __attribute__((aligned(16)));
	ND_ARR(unsigned char, sb, 48); ND_ARR(unsigned char, db, 48);
	ASSUME(size >= 1 && size <= 32 && size % (ALIGN > 8 ? 8 : ALIGN) == 0);    /* sizeof is a multiple of the alignment */
	for (int i = 0; i < 48; i++) { src[i] = sb[i]; dst[i] = db[i]; }
	funccopy(&f, addrconst(dst + 8), addrconst(src + 8), size, ALIGN);
	funcret(&f, 0);
	il_run(f.start, 0, 0);
	WITNESS_POINT();
	CHECK(IL_WELLFORMED(), "emitted IL is well-formed (classes, single definitions)");
	bool ok = true, outside = true, srcok = true;
	for (unsigned i = 0; i < 48; i++) {
		if (i >= 8 && i < 8 + size) { if (dst[i] != sb[i]) ok = false; }
		else if (dst[i] != db[i]) outside = false;
		if (src[i] != sb[i]) srcok = false;
	}
	CHECK(ok, "every byte of the aggregate is copied");
	CHECK(outside, "no byte outside the destination object is written");
	CHECK(srcok, "the source is not modified");
#elif MODE == 3
	const unsigned offset = OFF, end = END;      /* concrete per instance; previous contents symbolic */
	static unsigned char obj[48] __attribute__((aligned(16)));
	ND_ARR(unsigned char, ob, 48);
	ASSUME(offset <= end && end <= 32);
	for (int i = 0; i < 48; i++) obj[i] = ob[i];
	zero(&f, addrconst(obj), ALIGN, offset, end);
	funcret(&f, 0);
	il_run(f.start, 0, 0);
	WITNESS_POINT();
	CHECK(IL_WELLFORMED(), "emitted IL is well-formed (classes, single definitions)");
	bool z = true, before_ok = true, after_ok = true;
	unsigned lim = (end + ALIGN - 1) / ALIGN * ALIGN;
	for (unsigned i = 0; i < 48; i++) {
		if (i >= offset && i < end) { if (obj[i] != 0) z = false; }
		else if (i < offset) { if (obj[i] != ob[i]) before_ok = false; }
		else if (i >= lim) { if (obj[i] != ob[i]) after_ok = false; }
	}
	CHECK(z, "every byte of the gap is zeroed");
	CHECK(before_ok, "bytes already initialised before the gap are preserved");
	CHECK(after_ok, "nothing beyond the object's aligned end is written");
#elif MODE == 4
	ND(unsigned long long, size); ND(unsigned long long, stack);
	ASSUME(size >= 1 && size <= (1ull << 32) && stack % 4 == 0 && stack >= 4096 && stack < (1ull << 47));
	alloc_base = stack;
	struct type t = {.kind = TYPESTRUCT, .size = size, .align = ALIGN > 16 ? 16 : ALIGN};
	struct decl d = {.name = "v", .kind = DECLOBJECT, .type = &t};
	d.u.obj.align = ALIGN; d.u.obj.storage = SDAUTO;
	funcalloc(&f, &d);
	funcret(&f, d.value);
	il_run(f.start, 0, 0);
	WITNESS_POINT();
	CHECK(IL_WELLFORMED(), "emitted IL is well-formed (classes, single definitions)");
	unsigned long long p = il_val(d.value, 'l');
	CHECK(alloc_calls == 1, "one stack allocation per object");
	ASSUME(stack % alloc_align == 0);            /* allocN returns an N-aligned address, nothing more */
	CHECK(p % ALIGN == 0, "the object's address has the requested alignment");
	CHECK(p >= alloc_base && p + size <= alloc_base + alloc_size, "the object lies inside the allocated stack block");
#endif
	return 0;
}
