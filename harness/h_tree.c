/* C15: one treeinsert() step from a concrete AVL shape with symbolic keys (tree.c, unit linked: tree).
 * shape.inc (generated) defines NNODES, HEIGHT and BUILD(). */
#include "common.h"
#include "util.h"
#include "shape.inc"
struct sc { struct treenode node; void *body; };
void *xmalloc(size_t n) { void *p = malloc(n); ASSUME(p != 0); return p; }
/* one separate object per node (declared by shape.inc as nd0, nd1, ...): an array of nodes would make every
 * pointer dereference a symbolic-offset access into one big object */
NODE_DECLS
static struct treenode *const ndp[NNODES + 1] = { NODE_PTRS 0 };
static unsigned long long keys[NNODES + 1];
static int count;
/* independent checker: BST order (strict), AVL balance, stored heights exact */
static int check(struct treenode *n, unsigned long long lo, unsigned long long hi, bool haslo, bool hashi, int depth) {
	if (!n) return 0;
	CHECK(depth <= HEIGHT + 1, "search depth stays within the AVL height bound");
	count++;
	CHECK(!haslo || n->key > lo, "BST order (left bound)");
	CHECK(!hashi || n->key < hi, "BST order (right bound)");
	int h0 = check(n->child[0], lo, n->key, haslo, true, depth + 1);
	int h1 = check(n->child[1], n->key, hi, true, hashi, depth + 1);
	CHECK(h0 - h1 <= 1 && h1 - h0 <= 1, "AVL balance");
	int h = (h0 > h1 ? h0 : h1) + 1;
	CHECK(n->height == h, "stored height is exact");
	return h;
}
static struct treenode *find(struct treenode *n, unsigned long long k) {
	for (int d = 0; d <= HEIGHT + 1 && n; d++) { if (n->key == k) return n; n = n->child[k > n->key]; }
	return 0;
}
int main(void) {
	ND_ARR(unsigned long long, ks, NNODES + 1);
	ND(unsigned long long, k);
	for (int i = 0; i < NNODES; i++) keys[i] = ks[i];
	for (int i = 0; i + 1 < NNODES; i++) ASSUME(keys[i] < keys[i + 1]);     /* in-order key sequence */
	void *root = 0;
	BUILD();
	bool dup = false;
	for (int i = 0; i < NNODES; i++) if (keys[i] == k) dup = true;
	struct sc *c = treeinsert(&root, k, sizeof *c);
	WITNESS_POINT();
	CHECK(c != 0 && c->node.key == k, "returned node carries the key");
	CHECK(c->node.new == !dup, "new flag set iff the key was absent");
	count = 0;
	int h = check(root, 0, 0, false, false, 1);
	CHECK(count == NNODES + (dup ? 0 : 1), "node count: nothing lost, nothing duplicated");
	CHECK(h >= HEIGHT && h <= HEIGHT + 1, "height grows by at most one");
	for (int i = 0; i < NNODES; i++) CHECK(find(root, keys[i]) == ndp[i], "every old key still resolves to its own node");
	CHECK(find(root, k) == &c->node, "the inserted key resolves to the returned node");
	return 0;
}
