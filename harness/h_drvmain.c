/* C17: the driver's command-line routing.  driver.c:main is run on a concrete option *shape* (shape.inc, generated with the expected
 * stage list by props/c17.py from a model of cproc(1)); the strings inside the shape (file base names, option arguments, -W?, payloads)
 * are symbolic.  Every spawned command is recorded and compared with the expectation: tool, base command, forwarded options in
 * command-line order, input/output naming.  All tools succeed.  Unit included: driver.c; linked: util. */
#include "common.h"
#define main driver_main
#include "driver.c"
#undef main
#define MAXSP 8
#define MAXARG 40
static struct { int nargs; char *arg[MAXARG]; bool has_stdin_pipe; } sp[MAXSP]; static int nsp;
static int exit_code = -1; static bool usage_before_spawn;
static char *tmpnames[4]; static int ntmp;
static pid_t nextpid = 100; static pid_t live[MAXSP]; static int nlive;
static int nunlink;
int posix_spawnp(pid_t *pid, const char *file, const posix_spawn_file_actions_t *fa, const posix_spawnattr_t *at, char *const argv[], char *const envp[]) {
	if (nsp < MAXSP) { int n = 0; for (; n < MAXARG && argv[n]; n++) sp[nsp].arg[n] = argv[n]; sp[nsp].nargs = n; }
	nsp++;
	*pid = nextpid++; if (nlive < MAXSP) live[nlive++] = *pid;
	return 0;
}
int posix_spawn_file_actions_init(posix_spawn_file_actions_t *a) { return 0; }
int posix_spawn_file_actions_destroy(posix_spawn_file_actions_t *a) { return 0; }
int posix_spawn_file_actions_adddup2(posix_spawn_file_actions_t *a, int x, int y) { if (y == 0 && nsp < MAXSP) sp[nsp].has_stdin_pipe = true; return 0; }
int pipe(int fd[2]) { fd[0] = 10; fd[1] = 11; return 0; }
int fcntl(int fd, int cmd, ...) { return 0; }
int close(int fd) { return 0; }
int mkstemp(char *t) { if (ntmp < 4) tmpnames[ntmp] = t; ntmp++; return 7; }
int kill(pid_t p, int sig) { CHECK(0, "no tool is signalled when every stage succeeds"); return 0; }
int unlink(const char *p) { nunlink++; return 0; }
char *strsignal(int s) { return "signal"; }
ssize_t readlink(const char *p, char *buf, size_t n) { static const char self[] = "/bin/cproc"; memcpy(buf, self, sizeof self - 1); return sizeof self - 1; }
pid_t wait(int *status) { CHECK(nlive > 0, "wait() only while a child is outstanding"); if (nlive <= 0) PATH_END(); *status = 0; return live[--nlive]; }
pid_t waitpid(pid_t pid, int *status, int opts) { *status = 0; if (nlive > 0) nlive--; return pid; }
void warn(const char *fmt, ...) {}
void fatal(const char *fmt, ...) { CHECK(0, "fatal() reached although every environment call succeeds"); PATH_END(); }
void *xmalloc(size_t n) { void *p = malloc(n); ASSUME(p != 0); return p; }
#ifndef REPLAY
/* argument vectors are built with arrayadd()/realloc(); pointers stored into the byte arrays CBMC's realloc returns are read back as
 * non-constant byte_extracts (every argv walk then unwinds to its bound).  Typed rows of 128 pointers, grown in place, instead. */
static char *rowpool[10][128]; static int nrows; static struct input inrow[16];
void *realloc(void *p, size_t n) {
	if (n > sizeof rowpool[0]) PATH_END();
	if (p) return p;
	if (nrows >= 10) PATH_END();
	/* driver.c:main allocates the five stage command vectors first; the next new array is `inputs` (an array of struct input) */
	if (nrows++ == 5) { if (n > sizeof inrow) PATH_END(); return inrow; }
	return rowpool[nrows - 1];
}
#endif
int fprintf(FILE *f, const char *fmt, ...) { return 0; }
int vfprintf(FILE *f, const char *fmt, va_list ap) { return 0; }
int fputc(int c, FILE *f) { return c; }
static void verdict(void);
void exit(int c) { exit_code = c; verdict(); PATH_END(); }

/* ---- expectation language (filled in by shape.inc) ---- */
enum { E_LIT, E_ARGV, E_CHEXT, E_TMP, E_BASE };
struct earg { int kind; int k; int off; const char *lit; };       /* E_ARGV: argv[k]+off (same pointer); E_CHEXT: basename of argv[k] with extension lit; E_TMP: k-th temporary */
struct espawn { int stage; bool stdin_pipe; int nargs; struct earg a[24]; };
#include "shape.inc"    /* ARGC, static char *ARGV[], symbolic string setup SETUP(), EXPECT_EXIT, NEXP, static const struct espawn EXP[] */

static bool eqstr(const char *a, const char *b) { for (int i = 0; i < 48; i++) { if (a[i] != b[i]) return false; if (!a[i]) return true; } return false; }
static void ref_chext(const char *name, const char *ext, char *out) {        /* cproc(1): "replacing the source file extension"; directory part dropped */
	int slash = -1, dot = -1, n = 0;
	for (; n < 24 && name[n]; n++) if (name[n] == '/') slash = n;
	const char *b = name + slash + 1; int bl = 0;
	for (; bl < 24 && b[bl]; bl++) if (b[bl] == '.') dot = bl;
	int keep = dot >= 0 ? dot : bl, o = 0;
	for (int i = 0; i < keep && i < 24; i++) out[o++] = b[i];
	out[o++] = '.';
	for (int i = 0; i < 8 && ext[i]; i++) out[o++] = ext[i];
	out[o] = 0;
}
static const char *const *basecmd(int stage, int *n) {
	switch (stage) {
	case PREPROCESS: *n = LEN(preprocesscmd); return preprocesscmd;
	case CODEGEN: *n = LEN(codegencmd); return codegencmd;
	case ASSEMBLE: *n = LEN(assemblecmd); return assemblecmd;
	case LINK: *n = LEN(linkcmd); return linkcmd;
	}
	*n = 0; return 0;
}
static void verdict(void) {
#ifdef WITNESS
	CHECK(0, "witness: end of harness reachable");
#endif
	CHECK(exit_code == EXPECT_EXIT, "exit status: 0 when every stage succeeds, 2 for a usage error");
	if (EXPECT_EXIT == 2) { CHECK(nsp == 0, "an invalid combination is refused before anything runs"); return; }
	CHECK(nsp == NEXP, "exactly the stages implied by the input types and the mode flag are run");
	for (int i = 0; i < NEXP && i < MAXSP; i++) {
		const struct espawn *e = &EXP[i];
		int nb; const char *const *bc = basecmd(e->stage, &nb); int pos = 0;
		bool ok = true;
		if (e->stage == COMPILE) { if (sp[i].nargs < 3 || !eqstr(sp[i].arg[0], "/bin/cproc-qbe") || !eqstr(sp[i].arg[1], "-t") || !eqstr(sp[i].arg[2], "x86_64-sysv")) ok = false; pos = 3; }
		else {
			for (int j = 0; j < nb; j++) if (j >= sp[i].nargs || sp[i].arg[j] != bc[j]) ok = false;
			pos = nb;
			if (e->stage == CODEGEN) { if (sp[i].nargs < pos + 2 || !eqstr(sp[i].arg[pos], "-t") || !eqstr(sp[i].arg[pos + 1], "amd64_sysv")) ok = false; pos += 2; }
		}
		CHECK(ok, "each tool is started with its configured base command and target flag");
		CHECK(sp[i].nargs == pos + e->nargs, "each tool receives exactly its own options and file arguments, nothing else");
		CHECK(sp[i].has_stdin_pipe == e->stdin_pipe, "stages of one input are connected in pipeline order");
		for (int j = 0; j < e->nargs && j < 24; j++) if (pos + j < sp[i].nargs) {
			const struct earg *a = &e->a[j]; char *got = sp[i].arg[pos + j]; char buf[40];
			switch (a->kind) {
			case E_LIT: CHECK(eqstr(got, a->lit), "fixed argument"); break;
			case E_ARGV: CHECK(got == ARGV[a->k] + a->off, "user options and inputs are forwarded verbatim, in command-line order, to the tool they belong to"); break;
			case E_CHEXT: ref_chext(ARGV[a->k], a->lit, buf); CHECK(eqstr(got, buf), "default output name: source name with its extension replaced"); break;
			case E_TMP: CHECK(a->k < ntmp && got == tmpnames[a->k], "temporary object of this input"); break;
			}
		}
	}
}
int main(void) {
	SETUP();
	int rc = driver_main(ARGC, ARGV);
	exit_code = rc;
	verdict();
	return 0;
}
