/* C12 (flat kernels of the preprocessor; expansion itself is outside, see DESIGN.md): pp.c:stringize and pp.c:macroequal on constructed
 * arguments with symbolic kinds, spellings and flags.  Unit included: pp.c; linked: token (tokstr), util. */
#include "common.h"
#include "pp.c"
void scan(struct token *t) { t->kind = TEOF; }
void scanfrom(const char *n, FILE *f) {} void scanopen(void) {} void scansetloc(struct location l) {}
void error(const struct location *loc, const char *fmt, ...) { CHECK(0, "no diagnostic"); PATH_END(); }
void fatal(const char *fmt, ...) { CHECK(0, "fatal() reached"); PATH_END(); }
void *xmalloc(size_t n) { void *p = malloc(n); ASSUME(p != 0); return p; }
#ifndef REPLAY
/* the string buffer grows through arrayadd()/realloc(); CBMC's realloc model (malloc + memcpy of a symbolic length + free) exhausts memory:
 * one static 256-byte buffer, grown in place */
static char cbuf[32];
void *realloc(void *p, size_t n) { if (n > 256) PATH_END(); return cbuf; }   /* the array believes 256 bytes; the object is 32 bytes, the harness stays below 24 */
#endif
#ifndef NT
#define NT 3
#endif
static const enum tokenkind kinds[] = {TIDENT, TNUMBER, TSTRINGLIT, TCHARCONST, TADD, TSHLASSIGN};
int main(void) {
#if MODE == 1
	ND_ARR(unsigned, ksel, NT); ND_ARR(bool, sp, NT); ND_ARR(char, ch, NT * 2);
	static char lits[NT][3]; static struct token t[NT];
	static unsigned char want[32]; unsigned wl = 0;
	struct array buf = {0};
	arrayaddbuf(&buf, "\"", 1);
	want[wl++] = '"';
	for (unsigned i = 0; i < NT; i++) {
		ASSUME(ksel[i] < 4 && ch[2 * i] != 0 && ch[2 * i + 1] != 0 && ch[2 * i] != ' ' && ch[2 * i + 1] != ' ');     /* token spellings never end in white space */
		lits[i][0] = ch[2 * i]; lits[i][1] = ch[2 * i + 1]; lits[i][2] = 0;
		t[i].kind = kinds[ksel[i]]; t[i].space = sp[i]; t[i].lit = ksel[i] < 4 ? (char *)lits[i] : (char *)0;
		stringize(&buf, &t[i]);
		/* reference: 6.10.3.2p2 */
		if (sp[i] && i > 0) want[wl++] = ' ';                        /* white space between tokens becomes one space; none at the start */
		const char *spell = ksel[i] < 4 ? lits[i] : ksel[i] == 4 ? "+" : "<<=";
		bool quote = t[i].kind == TSTRINGLIT || t[i].kind == TCHARCONST;
		for (unsigned j = 0; j < 3 && spell[j]; j++) { if (quote && (spell[j] == '"' || spell[j] == '\\')) want[wl++] = '\\'; want[wl++] = spell[j]; }
	}
	WITNESS_POINT();
	CHECK(buf.len == wl, "stringized argument has the length 6.10.3.2p2 prescribes");
	bool same = true;
	for (unsigned i = 0; i < 24; i++) if (i < wl && i < buf.len && ((unsigned char *)buf.val)[i] != want[i]) same = false;
	CHECK(same, "stringized spelling: tokens separated by single spaces where the source had white space, \\\\ and \\\" escaped inside string and character literals only");
#else
	static char *const names[] = {"x", "y"}; static char *const spell[] = {"a", "b"};
	ND_ARR(unsigned, mk, 2); ND_ARR(unsigned, np, 2); ND_ARR(unsigned, pn, 4); ND_ARR(unsigned, pf, 4); ND_ARR(unsigned, nt, 2); ND_ARR(unsigned, tk, 4); ND_ARR(unsigned, ts, 4); ND_ARR(bool, tsp, 4);
	static struct macroparam P[2][2]; static struct token T[2][2]; static struct macro M[2];
	for (int m = 0; m < 2; m++) {
		ASSUME(mk[m] < 2 && np[m] <= 2 && nt[m] <= 2);
		M[m].kind = mk[m] ? MACROFUNC : MACROOBJ; M[m].name = "m"; M[m].nparam = mk[m] ? np[m] : 0; M[m].param = P[m]; M[m].ntoken = nt[m]; M[m].token = T[m];
		for (int i = 0; i < 2; i++) {
			ASSUME(pn[2 * m + i] < 2 && pf[2 * m + i] < 8 && tk[2 * m + i] < 3 && ts[2 * m + i] < 2);
			P[m][i].name = names[pn[2 * m + i]]; P[m][i].flags = pf[2 * m + i];
			T[m][i].kind = kinds[tk[2 * m + i] == 2 ? 4 : tk[2 * m + i]]; T[m][i].lit = tk[2 * m + i] == 2 ? 0 : spell[ts[2 * m + i]]; T[m][i].space = tsp[2 * m + i];
		}
	}
	bool eq = M[0].kind == M[1].kind && M[0].ntoken == M[1].ntoken;
	if (eq && M[0].kind == MACROFUNC) {
		if (M[0].nparam != M[1].nparam) eq = false;
		for (unsigned i = 0; i < 2; i++) if (eq && i < M[0].nparam && (pn[i] != pn[2 + i] || pf[i] != pf[2 + i])) eq = false;
	}
	for (unsigned i = 0; i < 2; i++) if (eq && i < M[0].ntoken && (tk[i] != tk[2 + i] || (tk[i] != 2 && ts[i] != ts[2 + i]) || (i > 0 && tsp[i] != tsp[2 + i]))) eq = false;      /* white space before the first token is not part of the list */
	WITNESS_POINT();
	CHECK(macroequal(&M[0], &M[1]) == eq, "two definitions are the same (6.10.3p2) iff kind, parameter spellings/usage, the replacement list's tokens, spellings and white-space separation agree");
#endif
	return 0;
}
