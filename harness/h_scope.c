/* C16: scope.c name resolution over a chain of three scopes (file -> block -> inner block): innermost holder wins,
 * tag and ordinary name spaces are separate, `recurse == false` looks at one scope only.
 * Unit: scope.c included; map.c replaced by its contract (see below). */
#include "common.h"
#include "scope.c"
const struct target *targ;
void fatal(const char *fmt, ...) { CHECK(0, "fatal() reached"); PATH_END(); }
void *xmalloc(size_t n) { void *p = malloc(n); ASSUME(p != 0); return p; }
void *xreallocarray(void *b, size_t n, size_t m) { void *p = malloc(n * m); ASSUME(p != 0); return p; }
/* map.c is replaced by its contract (proved on the real code by the map.* instances): a finite map from names to
 * values; len = number of distinct keys; mapput returns the slot of the key, creating it with NULL. */
#define MSLOTS 3
struct mmodel { const char *k[MSLOTS]; size_t kl[MSLOTS]; void *v[MSLOTS]; };
void mapkey(struct mapkey *k, const void *s, size_t n) { k->str = s; k->len = n; k->hash = 0; }
void mapinit(struct map *h, size_t cap) { struct mmodel *m = malloc(sizeof *m); ASSUME(m != 0); for (int i = 0; i < MSLOTS; i++) m->k[i] = 0; h->len = 0; h->cap = cap; h->keys = (void *)m; h->vals = 0; }
static int mfind(struct mmodel *m, struct mapkey *k) {
	for (int i = 0; i < MSLOTS; i++) if (m->k[i] && m->kl[i] == k->len && memcmp(m->k[i], k->str, k->len) == 0) return i;
	return -1;
}
void **mapput(struct map *h, struct mapkey *k) {
	struct mmodel *m = (void *)h->keys; int i = mfind(m, k);
	if (i < 0) { for (i = 0; i < MSLOTS && m->k[i]; i++) ; if (i == MSLOTS) PATH_END(); m->k[i] = k->str; m->kl[i] = k->len; m->v[i] = 0; h->len++; }
	return &m->v[i];
}
void *mapget(struct map *h, struct mapkey *k) { struct mmodel *m = (void *)h->keys; int i = mfind(m, k); return i < 0 ? 0 : m->v[i]; }
void mapfree(struct map *h, void del(void *)) { free(h->keys); }
static char *names[3] = {"x", "y", "xy"};
static struct decl D[3][3]; static struct type T[3][3];
int main(void) {
	ND(unsigned, dmask); ND(unsigned, tmask); ND(unsigned, q); ND(unsigned, from); ND(bool, recurse);
	ASSUME(dmask < 512 && tmask < 512 && q < 3 && from < 3);
	struct scope *s[3];
	filescope.parent = NULL; filescope.decls.len = 0; filescope.tags.len = 0;
	s[0] = &filescope; s[1] = mkscope(s[0]); s[2] = mkscope(s[1]);
	for (int lvl = 0; lvl < 3; lvl++) for (int n = 0; n < 3; n++) {
		D[lvl][n].name = names[n];
		if (dmask >> (lvl * 3 + n) & 1) scopeputdecl(s[lvl], &D[lvl][n]);
		if (tmask >> (lvl * 3 + n) & 1) scopeputtag(s[lvl], names[n], &T[lvl][n]);
	}
	struct decl *wantd = NULL; struct type *wantt = NULL;
	for (int lvl = from; lvl >= 0; lvl--) {
		if (!wantd && (dmask >> (lvl * 3 + q) & 1)) wantd = &D[lvl][q];
		if (!wantt && (tmask >> (lvl * 3 + q) & 1)) wantt = &T[lvl][q];
		if (!recurse) break;
	}
	if (!recurse) {
		wantd = (dmask >> (from * 3 + q) & 1) ? &D[from][q] : NULL;
		wantt = (tmask >> (from * 3 + q) & 1) ? &T[from][q] : NULL;
	}
	WITNESS_POINT();
	CHECK(scopegetdecl(s[from], names[q], recurse) == wantd, "an identifier denotes the innermost visible declaration");
	CHECK(scopegettag(s[from], names[q], recurse) == wantt, "a tag denotes the innermost visible tag; tags and ordinary names do not see each other");
	return 0;
}
