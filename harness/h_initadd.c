/* C07: init.c:initadd, one step: an arbitrary valid initializer list (sorted, disjoint bit ranges) of NOLD entries
 * plus one new initializer with a symbolic bit range: afterwards the list is valid again, contains the new entry,
 * has lost exactly the old entries whose range the new one covers and the old SCALAR entries that cover the new one (an initializer for a
 * different member of a union replaces the earlier one), and keeps all others - containers (string/aggregate values) that a later element
 * patches - in order.
 * Unit included: init.c. */
#include "common.h"
#include "init.c"
struct token tok;
void error(const struct location *loc, const char *fmt, ...) { PATH_END(); }
void fatal(const char *fmt, ...) { PATH_END(); }
void *xmalloc(size_t n) { void *p = malloc(n); ASSUME(p != 0); return p; }
#ifndef NOLD
#define NOLD 3
#endif
static unsigned long long sbit(struct init *i) { return i->start * 8 + i->bits.before; }
static unsigned long long ebit(struct init *i) { return i->end * 8 - i->bits.after; }
int main(void) {
	ND_ARR(unsigned, st, NOLD + 1); ND_ARR(unsigned, sz, NOLD + 1); ND_ARR(unsigned, bf, NOLD + 1); ND_ARR(unsigned, af, NOLD + 1);
	ND(unsigned, nold); ND(unsigned, lastpos);
	static struct init in[NOLD + 1]; static struct expr ex[NOLD + 1];
	bool cont[NOLD + 1]; for (unsigned i = 0; i <= NOLD; i++) cont[i] = (CONT >> i) & 1;      /* which old entries are containers: concrete per instance (-DCONT=mask) */
	static struct type tcont = {.kind = TYPEARRAY, .prop = 0}, tscal = {.kind = TYPELONG, .prop = PROPSCALAR | PROPINT};
	ASSUME(nold <= NOLD);
	for (unsigned i = 0; i <= NOLD; i++) {
		ASSUME(sz[i] == 1 || sz[i] == 2 || sz[i] == 4 || sz[i] == 8);
		ASSUME(st[i] < 16 && bf[i] < 64 && af[i] < 64 && bf[i] + af[i] < sz[i] * 8);
		in[i].start = st[i]; in[i].end = st[i] + sz[i]; in[i].bits.before = bf[i]; in[i].bits.after = af[i]; in[i].next = 0;
		ASSUME(!cont[i] || (bf[i] == 0 && af[i] == 0));                     /* containers are whole objects, never bit-fields */
		ex[i].kind = EXPRCONST; ex[i].type = cont[i] ? &tcont : &tscal; in[i].expr = &ex[i];
	}
	for (unsigned i = 0; i + 1 < NOLD; i++) if (i + 1 < nold) { ASSUME(ebit(&in[i]) <= sbit(&in[i + 1])); }
	struct initparser p; p.init = 0;
	for (unsigned i = 0; i < NOLD; i++) if (i < nold) in[i].next = i + 1 < nold ? &in[i + 1] : 0;
	if (nold) p.init = &in[0];
	/* p.last points at the list head (after a designator) or just behind the previously added initializer */
	ASSUME(lastpos <= nold);
	p.last = lastpos == 0 ? &p.init : &in[lastpos - 1].next;
	struct init *new = &in[NOLD];
	/* the entries before p.last end before the new one starts (initializers are added in increasing order between designators) */
	for (unsigned i = 0; i < NOLD; i++) if (i < lastpos) ASSUME(ebit(&in[i]) <= sbit(new));
	/* partial overlaps arise only for containers (string/aggregate covering a later element): old covers new entirely, or new covers old entirely */
	for (unsigned i = 0; i < NOLD; i++) if (i < nold) {
		bool disjoint = ebit(&in[i]) <= sbit(new) || ebit(new) <= sbit(&in[i]);
		bool newcovers = sbit(new) <= sbit(&in[i]) && ebit(&in[i]) <= ebit(new);
		bool oldcovers = sbit(&in[i]) <= sbit(new) && ebit(new) <= ebit(&in[i]);
		ASSUME(disjoint || newcovers || oldcovers);
	}
	initadd(&p, new);
	WITNESS_POINT();
	/* walk the result */
	bool seen_new = false; unsigned long long prev = 0; bool sorted = true; unsigned kept = 0; bool order_ok = true; int lastidx = -1;
	struct init *it = p.init;
	for (unsigned n = 0; n <= NOLD + 1 && it; n++, it = it->next) {
		if (it == new) seen_new = true;
		else {
			int idx = (int)(it - in);
			if (idx <= lastidx) order_ok = false;
			lastidx = idx; kept++;
			bool covered = sbit(new) <= sbit(it) && ebit(it) <= ebit(new);
			CHECK(!covered, "an initializer overridden by a later one is removed");
			bool covers = sbit(it) <= sbit(new) && ebit(new) <= ebit(it);
			CHECK(!covers || cont[idx], "a scalar initializer that overlaps a later one (another member of a union) is removed");
		}
	}
	CHECK(it == 0, "list stays finite");
	CHECK(seen_new, "the new initializer is in the list");
	CHECK(order_ok, "surviving initializers keep their order");
	unsigned expect_kept = 0;
	for (unsigned i = 0; i < NOLD; i++) if (i < nold && !(sbit(new) <= sbit(&in[i]) && ebit(&in[i]) <= ebit(new))
		&& !(!cont[i] && sbit(&in[i]) <= sbit(new) && ebit(new) <= ebit(&in[i]))) expect_kept++;
	CHECK(kept == expect_kept, "exactly the covered initializers are dropped, all others are kept");
	CHECK(p.last == &new->next, "insertion point follows the new initializer");
	/* sortedness of non-nested neighbours */
	for (it = p.init; it && it->next; it = it->next) {
		bool nested = (sbit(it) <= sbit(it->next) && ebit(it->next) <= ebit(it));
		CHECK(nested || ebit(it) <= sbit(it->next), "list is ordered by bit position (containers precede the elements that patch them)");
	}
	return 0;
}
