/* C07/C03: qbe.c:emitdata turns a sorted initializer list into a data definition; the printed items are decoded
 * back into a byte image and compared with the image the list denotes.  Unit included: qbe.c; linked: eval, type.
 * -DFORMS="wBl": per initializer a letter: b h w l = scalar member of 1/2/4/8 bytes, B H W L = bit-field in a storage unit of
 * that size; offsets, bit positions, widths and values are symbolic. */
#include "common.h"
#include <stdarg.h>
#include "qbe.c"
struct token tok;
void error(const struct location *loc, const char *fmt, ...) { CHECK(0, "constant initializer list is not rejected"); PATH_END(); }
void fatal(const char *fmt, ...) { CHECK(0, "fatal() reached"); PATH_END(); }
void *xmalloc(size_t n) { void *p = malloc(n); ASSUME(p != 0); return p; }
#define OBJMAX 24
static unsigned char img[OBJMAX + 8]; static unsigned long long ipos; static int cur_w; static int bad, closed, align_seen = -1;
static void put(unsigned long long v, int w) { for (int i = 0; i < w; i++) { if (ipos < OBJMAX + 8) img[ipos] = v >> (8 * i); ipos++; } }
static bool streq(const char *a, const char *b) { for (int i = 0; i < 20; i++) { if (a[i] != b[i]) return false; if (!a[i]) return true; } return false; }
int printf(const char *fmt, ...) {
	va_list ap; va_start(ap, fmt);
	if (streq(fmt, "b %u, ")) put(va_arg(ap, unsigned), 1);
	else if (streq(fmt, "z %llu, ") || streq(fmt, "z %llu ")) { unsigned long long n = va_arg(ap, unsigned long long); if (n == 0 || n > OBJMAX + 8) bad = 1; else ipos += n; /* image starts zeroed, positions only grow */ }
	else if (streq(fmt, "%c ")) {
#ifdef REPLAY
		int c = (char)va_arg(ap, int);
#else
		int c = va_arg(ap, char);      /* CBMC hands a char argument to a user-defined variadic function unpromoted */
#endif
		cur_w = c == 'b' ? 1 : c == 'h' ? 2 : c == 'w' ? 4 : c == 'l' ? 8 : 0; if (!cur_w) bad = 1;
	}
	else if (streq(fmt, "%llu")) put(va_arg(ap, unsigned long long), cur_w);
	else if (streq(fmt, " = align %d { ")) align_seen = va_arg(ap, int);
	else if (streq(fmt, ".%u")) (void)va_arg(ap, unsigned);
	else bad = 1;
	va_end(ap); return 0;
}
int fputs(const char *s, FILE *f) { return 0; }
int puts(const char *s) { if (streq(s, "}")) closed++; else bad = 1; return 0; }
int putchar(int c) { return c; }
int fputc(int c, FILE *f) { return c; }
#define NI (sizeof(FORMS) - 1)
static struct type *ityp(unsigned sz) { return sz == 1 ? &typeuchar : sz == 2 ? &typeushort : sz == 4 ? &typeuint : &typeulong; }
int main(void) {
	static const char forms[] = FORMS;
	ND_ARR(unsigned, off, NI); ND_ARR(unsigned, bef, NI); ND_ARR(unsigned, wid, NI); ND_ARR(unsigned long long, val, NI);
	ND(unsigned, objsize); ND(unsigned, objalign);
	ASSUME(objsize >= 1 && objsize <= OBJMAX);
	ASSUME(objalign == 1 || objalign == 2 || objalign == 4 || objalign == 8 || objalign == 16);
	struct type st = {.kind = TYPESTRUCT, .size = objsize, .align = objalign};
	struct decl d = {.name = "x", .kind = DECLOBJECT, .linkage = LINKEXTERN, .type = &st};
	d.u.obj.align = objalign; d.u.obj.storage = SDSTATIC;
	struct value gv = {.kind = VALUE_GLOBAL}; gv.u.name = "x"; d.value = &gv;
	static struct expr ex[NI]; static struct init in[NI];
	static unsigned char want[OBJMAX + 8];
	unsigned long long prev_end_bit = 0;
	for (unsigned i = 0; i < NI; i++) {
		char fl = forms[i]; bool isbf = fl >= 'A' && fl <= 'Z';
		unsigned sz = (fl | 32) == 'b' ? 1 : (fl | 32) == 'h' ? 2 : (fl | 32) == 'w' ? 4 : 8;
		ASSUME(off[i] < OBJMAX && off[i] % sz == 0 && off[i] + sz <= objsize);           /* members are naturally aligned inside the object */
		ex[i].kind = EXPRCONST; ex[i].type = ityp(sz);
		in[i].start = off[i]; in[i].end = off[i] + sz; in[i].expr = &ex[i]; in[i].next = i + 1 < NI ? &in[i + 1] : 0;
		unsigned long long sb, eb, v = val[i];
		if (isbf) {
			ASSUME(wid[i] >= 1 && wid[i] <= 64 && bef[i] < 64 && bef[i] + wid[i] <= sz * 8);
			in[i].bits.before = bef[i]; in[i].bits.after = sz * 8 - bef[i] - wid[i];
			sb = off[i] * 8ull + bef[i]; eb = sb + wid[i];
			ASSUME(wid[i] == 64 || v < (1ull << wid[i]));               /* value already converted to the bit-field's width (eval) */
		} else {
			in[i].bits.before = in[i].bits.after = 0;
			sb = off[i] * 8ull; eb = sb + sz * 8;
			ASSUME(sz == 8 || v < (1ull << (sz * 8)));
		}
		ASSUME(sb >= prev_end_bit);                                    /* initadd's invariant: sorted, non-overlapping bit ranges */
		prev_end_bit = eb;
		ex[i].u.constant.u = v;
		{	/* little-endian placement of v at bit position sb */
			unsigned __int128 sh = (unsigned __int128)v << (sb % 8);
			for (unsigned k = 0; k < 9; k++) { unsigned long long bi = sb / 8 + k; if (bi < OBJMAX + 8) want[bi] |= (unsigned char)(sh >> (8 * k)); }
		}
	}
	emitdata(&d, &in[0]);
	WITNESS_POINT();
	CHECK(!bad, "every emitted item is a well-formed data item");
	CHECK(closed == 1, "definition is closed exactly once");
	CHECK(align_seen == (int)objalign, "definition carries the object's alignment");
	CHECK(ipos == objsize, "definition has exactly the size of the object");
	bool same = true;
	for (unsigned i = 0; i < OBJMAX; i++) if (i < objsize && img[i] != want[i]) same = false;
	CHECK(same, "emitted bytes are the specified image: members hold their values, everything else (gaps, bit-field neighbours, padding) is zero");
	return 0;
}
