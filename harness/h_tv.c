/* C01-b / C02: translation validation in memory.  The token sequence of one C function (tokens.inc, generated from its source text) goes
 * through the REAL parser and lowering (decl.c, stmt.c, expr.c, init.c, qbe.c ...).  When the front end hands the finished function to
 * emitfunc(), the harness executes its IL with the IL semantics (il.h) on symbolic arguments / symbolic pointed-to memory and compares the
 * result and the final memory with the SAME source text compiled by CBMC's own C front end (ref.inc).  Structure concrete, inputs symbolic.
 * Unit included: qbe.c (emitfunc renamed); linked: decl stmt expr eval init type scope attr map util targ tree utf token. */
#include "common.h"
#include <stdarg.h>
#define emitfunc real_emitfunc
#define emitdata real_emitdata
#include "qbe.c"
#undef emitfunc
#undef emitdata
/* calls made by the function under test are resolved by the harness (CALLEES in ref.inc) */
static unsigned long long tv_call(struct inst *in);
#define IL_CALL(in) tv_call(in)
/* static/global objects defined by the skeleton: emitdata() (below) materialises constant initializers into harness memory */
static unsigned long long tv_global_addr(struct value *v);
#define IL_GLOBAL_ADDR(v) tv_global_addr(v)
#define IL_MAXDEPTH 400
#define MAXT 200
#include "il.h"

enum ppflags ppflags;
struct token tok;
#define MAXTOK 700
static struct token feed[MAXTOK]; static int nfeed, fpos;
static char *dupstr(const char *s) { size_t n = strlen(s) + 1; char *p = malloc(n); ASSUME(p != 0); memcpy(p, s, n); return p; }
static void push(enum tokenkind k, const char *lit, unsigned line) { feed[nfeed].kind = k; feed[nfeed].lit = lit ? dupstr(lit) : 0; feed[nfeed].loc.file = "<h>"; feed[nfeed].loc.line = line; feed[nfeed].loc.col = 1; nfeed++; }
void next(void) { if (fpos < nfeed) tok = feed[fpos++]; else { tok.kind = TEOF; tok.lit = 0; } }
bool consume(int kind) { if (tok.kind != kind) return false; next(); return true; }
char *expect(enum tokenkind kind, const char *msg) { char *lit = tokencheck(&tok, kind, msg); next(); return lit; }
bool peek(int kind) { if (fpos < nfeed ? feed[fpos].kind == kind : kind == TEOF) { next(); next(); return true; } return false; }
void ppinit(void) {}
void error(const struct location *loc, const char *fmt, ...) { CHECK(0, "a valid function is accepted"); PATH_END(); }
void fatal(const char *fmt, ...) { CHECK(0, "fatal()/internal error reached"); PATH_END(); }
void *xmalloc(size_t n) { void *p = malloc(n); ASSUME(p != 0); return p; }
#ifndef REPLAY
#ifndef MAPCAP
#define MAPCAP 64      /* largest initial hash-table capacity in the sources (props/parselib.py:mapcap reads it from the tree) */
#endif
static struct mapkey kpool[16][MAPCAP]; static void *vpool[16][MAPCAP]; static int nkp, nvp;
void *xreallocarray(void *b, size_t n, size_t m) {
	if (!b && m == sizeof(struct mapkey) && n <= MAPCAP && nkp < 16) return kpool[nkp++];
	if (!b && m == sizeof(void *) && n <= MAPCAP && nvp < 16) return vpool[nvp++];
	if (b) PATH_END();
	void *p = malloc(n * m); ASSUME(p != 0); return p;
}
void free(void *p) {}
unsigned long long strtoull(const char *s, char **end, int base) {
	unsigned long long v = 0; const char *p = s;
	if (base == 16 && p[0] == '0' && (p[1] == 'x' || p[1] == 'X')) p += 2;
	for (int i = 0; i < 24; i++) { int c = *p, d; if (c >= '0' && c <= '9') d = c - '0'; else if (c >= 'a' && c <= 'f') d = c - 'a' + 10; else if (c >= 'A' && c <= 'F') d = c - 'A' + 10; else break; if (d >= base) break; v = v * base + d; p++; }
	if (end) *end = (char *)p;
	return v;
}
char *strpbrk(const char *s, const char *accept) { for (int i = 0; i < 40 && s[i]; i++) for (int j = 0; j < 8 && accept[j]; j++) if (s[i] == accept[j]) return (char *)s + i; return 0; }
double strtod(const char *s, char **end) {
	double v = 0, scale = 1; const char *p = s; bool frac = false;
	for (int i = 0; i < 24; i++) {
		int c = *p;
		if (c >= '0' && c <= '9') { if (frac) { scale /= 10; v += (c - '0') * scale; } else v = v * 10 + (c - '0'); p++; }
		else if (c == '.' && !frac) { frac = true; p++; }
		else break;
	}
	if (*p == 'e' || *p == 'E') {      /* decimal exponent */
		const char *q = p + 1; bool neg = false; int ex = 0;
		if (*q == '+' || *q == '-') { neg = *q == '-'; q++; }
		if (*q >= '0' && *q <= '9') {
			for (int i = 0; i < 4 && *q >= '0' && *q <= '9'; i++, q++) ex = ex * 10 + (*q - '0');
			for (int i = 0; i < 40 && i < ex; i++) v = neg ? v / 10 : v * 10;
			p = q;
		}
	}
	if (end) *end = (char *)p;
	return v;
}
#else
void *xreallocarray(void *b, size_t n, size_t m) { void *p = realloc(b, n * m); ASSUME(p != 0); return p; }
#endif
int printf(const char *fmt, ...) { return 0; }
int puts(const char *s) { return 0; }
int fputs(const char *s, FILE *f) { return 0; }
int putchar(int c) { return c; }
int fputc(int c, FILE *f) { return c; }


#define TV_NGLOB 4
static struct { struct value *v; _Alignas(16) unsigned char mem[64]; } tv_glob[TV_NGLOB]; static int tv_nglob;
void emitdata(struct decl *d, struct init *init) {
	if (tv_nglob >= TV_NGLOB || d->type->size > 64) { il_unmodelled++; return; }
	tv_glob[tv_nglob].v = d->value;
	for (; init; init = init->next) {
		struct expr *e = eval(init->expr);
		if (e->kind != EXPRCONST || !(e->type->prop & PROPINT) || init->bits.before || init->bits.after) { il_unmodelled++; continue; }   /* integer constants only */
		for (unsigned long long k = 0; k < e->type->size && init->start + k < 64; k++) tv_glob[tv_nglob].mem[init->start + k] = (unsigned char)(e->u.constant.u >> (8 * k));
	}
	tv_nglob++;
}
static unsigned long long tv_global_addr(struct value *v) {
	for (int i = 0; i < TV_NGLOB; i++) if (i < tv_nglob && tv_glob[i].v == v) return (unsigned long long)(uintptr_t)tv_glob[i].mem;
	il_unmodelled++; return 0;
}
/* ---- calls: the callees are harness functions (ref.inc).  Both executions record every call (callee, converted argument values) in a
 * trace and draw the callee's result from the same symbolic table, so the traces and everything computed from the results must agree. ---- */
#define TV_MAXCALL 6
static struct { int id, n; unsigned long long a[4]; } tv_tr[2][TV_MAXCALL]; static int tv_nc[2]; static int tv_side; static unsigned long long tv_retv[TV_MAXCALL];
static unsigned long long tv_rec(int id, int n, unsigned long long a0, unsigned long long a1, unsigned long long a2, unsigned long long a3) {
	int k = tv_nc[tv_side]++;
	if (k >= TV_MAXCALL) return 0;
	tv_tr[tv_side][k].id = id; tv_tr[tv_side][k].n = n; tv_tr[tv_side][k].a[0] = a0; tv_tr[tv_side][k].a[1] = a1; tv_tr[tv_side][k].a[2] = a2; tv_tr[tv_side][k].a[3] = a3;
	return tv_retv[k];
}
struct tv_args { int n, vararg_at; int cls[6]; unsigned long long val[6]; struct value *ty[6]; };
static struct tv_args tv_getargs(void) {
	struct tv_args A; A.n = 0; A.vararg_at = -1;
	for (size_t j = 1; j < 8; j++) {
		if (j >= il_cur_left) break;
		struct inst *a = il_cur_ip[j];
		if (a->kind == IVARARG) { A.vararg_at = A.n; continue; }
		if (a->kind != IARG) break;
		if (A.n < 6) { A.cls[A.n] = a->class; A.ty[A.n] = a->arg[1]; A.val[A.n] = il_val(a->arg[0], a->class); }
		A.n++;
	}
	return A;
}
static bool tv_callee_is(struct inst *in, const char *name, void *fn) {
	struct value *v = in->arg[0];
	if (v->kind == VALUE_GLOBAL) return strcmp(v->u.name, name) == 0;
	return il_val(v, 'l') == (unsigned long long)(uintptr_t)fn;
}
static bool tv_traces_equal(void) {
	if (tv_nc[0] != tv_nc[1]) return false;
	for (int k = 0; k < TV_MAXCALL; k++) if (k < tv_nc[0]) {
		if (tv_tr[0][k].id != tv_tr[1][k].id || tv_tr[0][k].n != tv_tr[1][k].n) return false;
		for (int j = 0; j < 4; j++) if (j < tv_tr[0][k].n && tv_tr[0][k].a[j] != tv_tr[1][k].a[j]) return false;
	}
	return true;
}
#include "tokens.inc"     /* feed_tokens() */
#include "ref.inc"        /* the same function compiled by CBMC (ref_NAME), NPARAM, setup of symbolic inputs, comparison, callees */

static int nfunc_seen;
void emitfunc(struct func *f, bool global) {
	nfunc_seen++;
	if (strcmp(f->name, TV_NAME) != 0) return;             /* helper definitions in the same skeleton */
	real_emitfunc(f, global);          /* the real emitter first: it completes the function (undefined labels, implicit return); its output goes to empty stubs */
	tv_run(f);
}
int main(void) {
	targinit("x86_64-sysv");
	feed_tokens();
	next();
	scopeinit();
	while (tok.kind != TEOF) {
		if (!decl(&filescope, NULL)) error(&tok.loc, "expected declaration or function definition");
	}
	CHECK(tv_done, "the function under test was lowered and handed to the emitter");
	return 0;
}
