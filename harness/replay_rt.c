/* native replay runtime: feeds the solver's counterexample to ND() inputs */
#include <stdio.h>
#include <stdlib.h>
#include <string.h>
struct ent { char name[96]; unsigned long long v; };
static struct ent *ents; static int nents, loaded;
static void load(void) {
	const char *p = getenv("VERIF_REPLAY_INPUT");
	FILE *f = p ? fopen(p, "r") : NULL;
	char n[96]; unsigned long long v;
	loaded = 1;
	if (!f) return;
	while (fscanf(f, "%95s %llx", n, &v) == 2) {
		ents = realloc(ents, (nents + 1) * sizeof *ents);
		strcpy(ents[nents].name, n); ents[nents].v = v; nents++;
	}
	fclose(f);
}
unsigned long long verif_replay_get(const char *name, long idx) {
	char key[128];
	if (!loaded) load();
	if (idx < 0) snprintf(key, sizeof key, "%s", name); else snprintf(key, sizeof key, "%s[%ld]", name, idx);
	for (int i = nents - 1; i >= 0; i--) if (!strcmp(ents[i].name, key)) return ents[i].v;
	return 0;   /* value the solver did not need */
}
#include <unistd.h>
/* no stdio here: harnesses may replace printf & co. */
static void say(const char *a, const char *b, const char *c, int line) {
	char num[16]; int n = 0, l = line; char tmp[16];
	do tmp[n++] = '0' + l % 10; while (l /= 10);
	for (int i = 0; i < n; i++) num[i] = tmp[n - 1 - i];
	write(2, a, strlen(a)); write(2, b, strlen(b)); write(2, " (", 2); write(2, c, strlen(c)); write(2, ":", 1); write(2, num, n); write(2, ")\n", 2);
}
void verif_replay_fail(const char *msg, const char *file, int line) { say("REPLAY-FAIL: ", msg, file, line); _Exit(1); }
void verif_replay_assume(const char *file, int line) { say("REPLAY-ASSUME-FALSE / path end", "", file, line); _Exit(77); }
void verif_replay_pathend(void) { _Exit(0); }   /* the path ended (error()/exit() stub) without any CHECK failing */
