/* C11: token.c:error() prints "<file>:<line>:<col>: error: " from the location it is given, then exits with status 1. Unit included: token.c */
#include "common.h"
#include <stdarg.h>
#include "token.c"
static const char *the_file; static size_t the_line, the_col;
static const char *seen_fmt; static const char *seen_file; static size_t seen_line, seen_col; static int nfp, exited = -1, nvf;
int fprintf(FILE *f, const char *fmt, ...) {
	va_list ap; va_start(ap, fmt);
	if (nfp++ == 0) { seen_fmt = fmt; seen_file = va_arg(ap, const char *); seen_line = va_arg(ap, size_t); seen_col = va_arg(ap, size_t); }
	va_end(ap); return 0;
}
int vfprintf(FILE *f, const char *fmt, va_list ap) { nvf++; CHECK(nfp == 1, "the location prefix is printed before the message"); return 0; }
int putc(int c, FILE *f) { return c; }
void fatal(const char *fmt, ...) { PATH_END(); }
static bool streq(const char *a, const char *b) { for (int i = 0; i < 24; i++) { if (a[i] != b[i]) return false; if (!a[i]) return true; } return false; }
void exit(int code) {
	exited = code;
	CHECK(code == 1, "a diagnosed error exits with status 1");
	CHECK(nfp == 1 && nvf == 1 && seen_fmt && streq(seen_fmt, "%s:%zu:%zu: error: "), "diagnostics start with file:line:col: error:");
	CHECK(seen_file == the_file && seen_line == the_line && seen_col == the_col, "the prefix carries the file, line and column of the location passed in");
#ifdef WITNESS
	CHECK(0, "witness: end of harness reachable");
#endif
	PATH_END();
}
int main(void) {
	ND(size_t, line); ND(size_t, col);
	static const char fname[] = "dir/file.c";
	struct location loc = {fname, line, col};
	the_file = fname; the_line = line; the_col = col;
	error(&loc, "message %d", 1);
	CHECK(0, "error() does not return");
	return 0;
}
