/* C14: string literals.  One or two adjacent literal tokens go through the real expr.c:stringconcat/decodechar/encodechar* and utf.c.
 * The SHAPE of a literal's body is concrete (-DSHAPE1="x2a", optional -DSHAPE2): per item a letter
 *   a  ASCII character (symbolic, not quote/backslash/control)      s  simple escape (symbolic among \n \t \\ \" \' \a \b \f \r \v \?)
 *   x  hex escape \xHH (two symbolic hex digits)                     o  octal escape \OOO (three symbolic octal digits, value <= 0377)
 *   2 3 4  UTF-8 encoded character of that length (symbolic scalar value of that range)
 * -DPREFIX1/-DPREFIX2: 0 none, 1 L, 2 u, 3 U, 4 u8.  The produced code units, their number and the element type are compared with C11 6.4.5p6
 * (hex/octal escapes give one element each; other characters are encoded in UTF-8 / UTF-16 / UTF-32 by the prefix).
 * Unit included: expr.c; linked: utf, type, targ, util. */
#include "common.h"
#include "expr.c"
struct token tok;
static bool expect_error;
void error(const struct location *loc, const char *fmt, ...) { CHECK(expect_error, "a valid string literal is accepted"); PATH_END(); }
void fatal(const char *fmt, ...) { CHECK(0, "fatal() reached"); PATH_END(); }
void *xmalloc(size_t n) { void *p = malloc(n); ASSUME(p != 0); return p; }
static char lit1[48], lit2[48]; static int have2, nnext;
void next(void) { nnext++; if (nnext == 1 && have2) { tok.kind = TSTRINGLIT; tok.lit = lit2; } else { tok.kind = TEOF; tok.lit = 0; } }
#ifndef PREFIX2
#define PREFIX2 0
#endif
static unsigned want[40]; static unsigned nwant; static int width;
static const char hexdig[] = "0123456789abcdefABCDEF";
static unsigned hexval(char c) { return c <= '9' ? c - '0' : (c | 32) - 'a' + 10; }
static void emit_cp(unsigned cp, bool hexoct) {
	if (hexoct || width == 4) { want[nwant++] = width == 1 ? (cp & 0xff) : width == 2 ? (cp & 0xffff) : cp; return; }
	if (width == 2) {
		if (cp < 0x10000) want[nwant++] = cp;
		else { cp -= 0x10000; want[nwant++] = 0xd800 | (cp >> 10); want[nwant++] = 0xdc00 | (cp & 0x3ff); }
		return;
	}
	if (cp < 0x80) want[nwant++] = cp;
	else if (cp < 0x800) { want[nwant++] = 0xc0 | cp >> 6; want[nwant++] = 0x80 | (cp & 0x3f); }
	else if (cp < 0x10000) { want[nwant++] = 0xe0 | cp >> 12; want[nwant++] = 0x80 | (cp >> 6 & 0x3f); want[nwant++] = 0x80 | (cp & 0x3f); }
	else { want[nwant++] = 0xf0 | cp >> 18; want[nwant++] = 0x80 | (cp >> 12 & 0x3f); want[nwant++] = 0x80 | (cp >> 6 & 0x3f); want[nwant++] = 0x80 | (cp & 0x3f); }
}
/* writes the source spelling of one item at p and records what it denotes */
static unsigned item(char *p, char kind, unsigned v) {
	static const char simple[] = "nt\\\"'abfrv?"; static const char simpleval[] = "\n\t\\\"'\a\b\f\r\v?";
	switch (kind) {
	case 'a': { unsigned c = 0x20 + v % 95; if (c == '"' || c == '\\') c = 'A'; p[0] = c; emit_cp(c, false); return 1; }
	case 's': { unsigned k = v % 11; p[0] = '\\'; p[1] = simple[k]; emit_cp((unsigned char)simpleval[k], false); return 2; }
	case 'x': { unsigned a = v % 22, b = v / 22 % 22; p[0] = '\\'; p[1] = 'x'; p[2] = hexdig[a]; p[3] = hexdig[b]; emit_cp(hexval(hexdig[a]) * 16 + hexval(hexdig[b]), true); return 4; }
	case 'o': { unsigned a = v % 4, b = v / 4 % 8, c = v / 32 % 8; p[0] = '\\'; p[1] = '0' + a; p[2] = '0' + b; p[3] = '0' + c; emit_cp(a * 64 + b * 8 + c, true); return 4; }
	case '2': { unsigned cp = 0x80 + v % (0x800 - 0x80); p[0] = 0xc0 | cp >> 6; p[1] = 0x80 | (cp & 0x3f); emit_cp(cp, false); return 2; }
	case '3': { unsigned cp = 0x800 + v % (0x10000 - 0x800); if (cp >= 0xd800 && cp < 0xe000) cp = 0xfffd; p[0] = 0xe0 | cp >> 12; p[1] = 0x80 | (cp >> 6 & 0x3f); p[2] = 0x80 | (cp & 0x3f); emit_cp(cp, false); return 3; }
	case '4': { unsigned cp = 0x10000 + v % 0x100000; p[0] = 0xf0 | cp >> 18; p[1] = 0x80 | (cp >> 12 & 0x3f); p[2] = 0x80 | (cp >> 6 & 0x3f); p[3] = 0x80 | (cp & 0x3f); emit_cp(cp, false); return 4; }
	}
	return 0;
}
static unsigned build(char *lit, int prefix, const char *shape, const unsigned *v) {
	unsigned p = 0;
	if (prefix == 1) lit[p++] = 'L'; else if (prefix == 2) lit[p++] = 'u'; else if (prefix == 3) lit[p++] = 'U'; else if (prefix == 4) { lit[p++] = 'u'; lit[p++] = '8'; }
	lit[p++] = '"';
	for (unsigned i = 0; i < 6 && shape[i]; i++) p += item(lit + p, shape[i], v[i]);
	lit[p++] = '"'; lit[p] = 0;
	return p;
}
int main(void) {
	targinit("x86_64-sysv");
	ND_ARR(unsigned, v1, 6); ND_ARR(unsigned, v2, 6);
	int kind = PREFIX1 ? PREFIX1 : PREFIX2;
	expect_error = PREFIX1 && PREFIX2 && PREFIX1 != PREFIX2;
	width = kind == 0 || kind == 4 ? 1 : kind == 2 ? 2 : 4;
	build(lit1, PREFIX1, SHAPE1, v1);
#ifdef SHAPE2
	have2 = 1; build(lit2, PREFIX2, SHAPE2, v2);
#endif
	tok.kind = TSTRINGLIT; tok.lit = lit1; tok.loc.file = "<h>"; tok.loc.line = 1; tok.loc.col = 1;
	struct stringlit s = {0};
	struct type *t = stringconcat(&s, false);
	WITNESS_POINT();
	CHECK(!expect_error, "adjacent literals with different encoding prefixes are diagnosed");
	struct type *wt = kind == 0 ? &typechar : kind == 4 ? &typeuchar : kind == 2 ? &typeushort : kind == 3 ? &typeuint : targ->typewchar;
	CHECK(t == wt, "element type follows the encoding prefix (C11 6.4.5p6)");
	CHECK(s.size == nwant + 1, "the array has one element per code unit plus the terminator");
	bool same = true;
	for (unsigned i = 0; i < 40; i++) if (i <= nwant && i < s.size) {
		unsigned w = i < nwant ? want[i] : 0;
		unsigned got = width == 1 ? ((unsigned char *)s.data)[i] : width == 2 ? ((unsigned short *)s.data)[i] : ((unsigned *)s.data)[i];
		if (got != w) same = false;
	}
	CHECK(same, "hex/octal escapes give one element each, every other character is encoded for the prefix (UTF-8/UTF-16/UTF-32), terminator last");
	return 0;
}
