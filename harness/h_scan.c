/* C13 / C11 / C19: one step of the real scanner (scan.c) from a token boundary,
 * first byte concrete (-DFIRST=<int>, -1 = EOF), continuation symbolic, against
 * an independent reference first-token function written from C11 6.4.
 * Unit included: scan.c.  Stubs: getc/ungetc/fclose (input = byte array), error, fatal,
 * xmalloc, xreallocarray (growth cut unless -DGROW). */
#include "common.h"
#include "scan.c"                  /* the real unit (rewritten snapshot under CBMC, /repo's file in replays) */

#ifndef N
#define N 4          /* total bytes of input considered, including FIRST */
#endif
#define the_scanner scanner

/* ---- input stream ------------------------------------------------------ */
static int in[N + 1];            /* in[0] = FIRST, in[i] = byte or -1 (EOF) */
static unsigned inlen;           /* number of bytes before EOF */
static unsigned rdpos;           /* next index getc returns */
/* pushback: two slots, as glibc provides (ISO C guarantees one; the only path needing two is "..\" + non-newline,
 * where scankind pushes back on top of nextchar's look-ahead) */
static int pushed = -2, pushed2 = -2;
int getc(FILE *f) {
	if (pushed != -2) { int c = pushed; pushed = pushed2; pushed2 = -2; return c; }
	if (rdpos == 0) { rdpos = 1; return FIRST; }     /* concrete dispatch byte */
#ifdef SECOND
	if (rdpos == 1 && pushed == -2) { rdpos = 2; return SECOND; }   /* second dispatch byte concrete too (prefix / backslash instances); -1 = EOF */
#endif
#ifdef THIRD
	if (rdpos == 2 && pushed == -2) { rdpos = 3; return THIRD; }
#endif
	if (rdpos >= inlen) { rdpos++; return EOF; }
	return in[rdpos++];
}
int ungetc(int c, FILE *f) { CHECK(pushed2 == -2, "at most two characters of pushback are ever needed"); pushed2 = pushed; pushed = c; return c; }
int fclose(FILE *f) { return 0; }

/* ---- reference lexer --------------------------------------------------- */
enum { R_TOKEN, R_SKIP, R_ERROR };
static int ref_res, ref_kind; static unsigned ref_n;
static int at(unsigned i) { return i < inlen ? in[i] : -1; }
static bool r_digit(int c) { return c >= '0' && c <= '9'; }
static bool r_alpha(int c) { return (c >= 'a' && c <= 'z') || (c >= 'A' && c <= 'Z'); }
static bool r_hex(int c) { return r_digit(c) || (c >= 'a' && c <= 'f') || (c >= 'A' && c <= 'F'); }
static bool r_oct(int c) { return c >= '0' && c <= '7'; }

/* quoted literal starting at the opening quote at index i; returns index after the closing quote or 0 on error */
static unsigned ref_quoted(unsigned i, int q) {
	i++;
	for (unsigned guard = 0; guard <= N; guard++) {
		int c = at(i);
		if (c == -1 || c == '\n') return 0;
		if (c == q) return i + 1;
		if (c == '\\') {
			int e = at(i + 1);
			if (e == '\'' || e == '"' || e == '?' || e == '\\' || e == 'a' || e == 'b' || e == 'f' || e == 'n' || e == 'r' || e == 't' || e == 'v') i += 2;
			else if (r_oct(e)) { i += 2; if (r_oct(at(i))) { i++; if (r_oct(at(i))) i++; } }
			else if (e == 'x') { i += 2; if (!r_hex(at(i))) return 0; while (r_hex(at(i))) i++; }
			else return 0;
		} else i++;
	}
	return 0;
}
static void ref_lex(void) {
	int c = at(0), c1 = at(1), c2 = at(2);
	ref_res = R_TOKEN; ref_n = 1;
	if (c == -1) { ref_kind = TEOF; ref_n = 0; return; }
	if (c == ' ' || c == '\t' || c == '\f' || c == '\v') { ref_res = R_SKIP; return; }
	if (c == '\n') { ref_kind = TNEWLINE; return; }
	if (c == '/' && c1 == '/') { unsigned i = 2; while (at(i) != -1 && at(i) != '\n') i++; ref_res = R_SKIP; ref_n = i; return; }
	if (c == '/' && c1 == '*') {
		for (unsigned i = 2; i + 1 < inlen; i++)
			if (at(i) == '*' && at(i + 1) == '/') { ref_res = R_SKIP; ref_n = i + 2; return; }
		ref_res = R_ERROR; return;
	}
	/* pp-number: [.]digit ( digit | nondigit | e+ e- E+ E- p+ p- P+ P- | . )* */
	if (r_digit(c) || (c == '.' && r_digit(c1))) {
		unsigned i = 1;
		for (;;) {
			int d = at(i), p = at(i - 1);
			if (r_digit(d) || r_alpha(d) || d == '_' || d == '.') i++;
			else if ((d == '+' || d == '-') && (p == 'e' || p == 'E' || p == 'p' || p == 'P')) i++;
			else break;
		}
		ref_kind = TNUMBER; ref_n = i; return;
	}
	/* encoding prefixes bind only to an immediately following quote */
	{
		unsigned q = (unsigned)-1;
		if (c == '\'' || c == '"') q = 0;
		else if ((c == 'L' || c == 'U' || c == 'u') && (c1 == '\'' || c1 == '"')) q = 1;
		else if (c == 'u' && c1 == '8' && (c2 == '\'' || c2 == '"')) q = 2;
		if (q != (unsigned)-1) {
			unsigned e = ref_quoted(q, at(q));
			if (!e) { ref_res = R_ERROR; return; }
			ref_kind = at(q) == '"' ? TSTRINGLIT : TCHARCONST; ref_n = e; return;
		}
	}
	if (r_alpha(c) || c == '_') {
		unsigned i = 1;
		while (r_alpha(at(i)) || r_digit(at(i)) || at(i) == '_') i++;
		ref_kind = TIDENT; ref_n = i; return;
	}
	/* punctuators, longest first (C11 6.4.6 without digraphs, plus C23 '::') */
#define P3(a, b, d, k) if (c == a && c1 == b && c2 == d) { ref_kind = k; ref_n = 3; return; }
#define P2(a, b, k) if (c == a && c1 == b) { ref_kind = k; ref_n = 2; return; }
#define P1(a, k) if (c == a) { ref_kind = k; ref_n = 1; return; }
	P3('.', '.', '.', TELLIPSIS) P3('<', '<', '=', TSHLASSIGN) P3('>', '>', '=', TSHRASSIGN)
	P2('-', '>', TARROW) P2('+', '+', TINC) P2('-', '-', TDEC) P2('<', '<', TSHL) P2('>', '>', TSHR) P2('<', '=', TLEQ)
	P2('>', '=', TGEQ) P2('=', '=', TEQL) P2('!', '=', TNEQ) P2('&', '&', TLAND) P2('|', '|', TLOR) P2('*', '=', TMULASSIGN)
	P2('/', '=', TDIVASSIGN) P2('%', '=', TMODASSIGN) P2('+', '=', TADDASSIGN) P2('-', '=', TSUBASSIGN) P2('&', '=', TBANDASSIGN)
	P2('^', '=', TXORASSIGN) P2('|', '=', TBORASSIGN) P2('#', '#', THASHHASH) P2(':', ':', TCOLONCOLON)
	P1('[', TLBRACK) P1(']', TRBRACK) P1('(', TLPAREN) P1(')', TRPAREN) P1('{', TLBRACE) P1('}', TRBRACE) P1('.', TPERIOD)
	P1('&', TBAND) P1('*', TMUL) P1('+', TADD) P1('-', TSUB) P1('~', TBNOT) P1('!', TLNOT) P1('/', TDIV) P1('%', TMOD)
	P1('<', TLESS) P1('>', TGREATER) P1('^', TXOR) P1('|', TBOR) P1('?', TQUESTION) P1(':', TCOLON) P1(';', TSEMICOLON)
	P1('=', TASSIGN) P1(',', TCOMMA) P1('#', THASH)
	ref_kind = TOTHER;
}
/* location bookkeeping convention of scan.c: a newline character itself is at (line+1, col 0) */
static void ref_loc(size_t line0, size_t col0, unsigned upto, size_t *line, size_t *col) {
	/* location of the character at index `upto`, given the character at index 0 is at (line0,col0) */
	size_t l = line0, c = col0;
	for (unsigned i = 1; i <= upto && i <= N; i++) {
		if (at(i) == '\n') { l++; c = 0; } else c++;
	}
	*line = l; *col = c;
}

/* ---- environment stubs ------------------------------------------------- */
static int nerr;
void error(const struct location *loc, const char *fmt, ...) {
	CHECK(ref_res == R_ERROR, "scanner diagnoses only what C11 6.4 makes invalid");
	nerr++;
#ifdef WITNESS_ERR
	CHECK(0, "witness: end of harness reachable");
#endif
	PATH_END();
}
void fatal(const char *fmt, ...) { CHECK(0, "fatal() reached from the scanner"); PATH_END(); }
void *xmalloc(size_t n) { void *p = malloc(n); ASSUME(p != 0); return p; }
void *xreallocarray(void *b, size_t n, size_t m) {
#ifndef GROW
	if (b) PATH_END();                          /* buffer growth cut in functional instances */
	/* under CBMC the spelling buffer object is only N+2 bytes long (the scanner believes 256): keeps symbolic-index
	 * stores cheap; that no access goes beyond N+1 is what the C19 safety instances (real size, bounds checks on) prove */
	void *p = malloc(IS_CBMC && n * m > N + 2 ? N + 2 : n * m); ASSUME(p != 0); return p;
#else
	void *p = realloc(b, n * m); ASSUME(p != 0); return p;
#endif
}

/* ---- hook: scankind (re)entry ------------------------------------------ */
static int entries; static bool sp0; static size_t line0, col0;
static void on_again(struct scanner *s, struct location *loc) {
	if (entries++ == 0) {
		/* arbitrary state at a token boundary: as left by a previous token or skip */
		s->sawspace = sp0; s->loc.line = line0; s->loc.col = col0;
		return;
	}
	/* re-entry after white space or a comment: must be the fresh state at offset ref_n, with sawspace set */
	CHECK(ref_res == R_SKIP, "scanner restarts only after white space or a comment");
	CHECK(s->chr == at(ref_n), "skip ends exactly at the end of the white space / comment");
	CHECK(rdpos - (pushed != -2) - (pushed2 != -2) == ref_n + 1, "no input lost or duplicated by the skip");
	CHECK(s->sawspace, "skipped white space/comment is recorded as a space");
	CHECK(!s->usebuf && s->buf.len == 0, "skipped text does not leak into the next token's spelling");
	size_t l, c; ref_loc(line0, col0, ref_n, &l, &c);
	CHECK(s->loc.line == l && s->loc.col == c, "location after skip counts the physical lines and columns");
	WITNESS_POINT();
	PATH_END();
}

int main(void) {
	static FILE dummy;
	struct token t;
	ND(unsigned, len);                 /* number of bytes after FIRST before EOF */
	ND_ARR(unsigned char, cont, N);    /* continuation bytes (cont[0] unused) */
	ND(bool, space0); ND(size_t, l0); ND(size_t, c0);
	ASSUME(len <= N - 1);
	ASSUME(l0 >= 1 && l0 < 1000000 && c0 >= 1 && c0 < 1000000);
	sp0 = space0; line0 = l0; col0 = c0;
	in[0] = FIRST; inlen = FIRST == -1 ? 0 : 1 + len;
	for (unsigned i = 1; i < N; i++) in[i] = cont[i];
#ifdef SECOND
	in[1] = SECOND;
	if (SECOND == -1) inlen = 1; else ASSUME(len >= 1);
#endif
#ifdef THIRD
	in[2] = THIRD;
	if (THIRD == -1) inlen = 2; else ASSUME(len >= 2);
#endif
	in[N] = -1;
	/* phase-2 splices are verified separately (h_nextchar.c); token instances assume none */
	for (unsigned i = 0; i + 1 < N; i++) ASSUME(!(in[i] == '\\' && in[i + 1] == '\n'));
	ref_lex();
	verif_again = on_again;
	scanfrom("<in>", &dummy);
	scan(&t);
	struct scanner *s = the_scanner;
#ifndef WITNESS_ERR
	WITNESS_POINT();
#endif
	CHECK(ref_res != R_ERROR, "invalid token (unterminated/bad escape) is diagnosed");
	CHECK(ref_res == R_TOKEN, "white space/comment does not produce a token");
	CHECK(t.kind == ref_kind, "token kind is the maximal-munch token of C11 6.4");
	CHECK(s->chr == at(ref_n), "scanner stops exactly at the end of the token (next character)");
	CHECK(rdpos - (pushed != -2) - (pushed2 != -2) == (inlen == 0 ? 1 : ref_n + 1), "residual input stream is the buffer after the token");
	bool haslit = ref_kind == TIDENT || ref_kind == TNUMBER || ref_kind == TCHARCONST || ref_kind == TSTRINGLIT || ref_kind == TOTHER;
	CHECK((t.lit != NULL) == haslit, "exactly the literal-carrying kinds have a spelling");
	if (haslit && t.lit) {
		bool same = true;
		for (unsigned i = 0; i < N; i++) if (i < ref_n && (unsigned char)t.lit[i] != at(i)) same = false;
		CHECK(same && t.lit[ref_n] == 0, "spelling is exactly the token's source bytes");
	}
	CHECK(t.space == space0, "space flag is inherited from the preceding skip only");
	CHECK(!t.hide, "fresh token is not hidden");
	CHECK(t.loc.line == l0 && t.loc.col == c0, "token location is its first character");
	if (inlen) {
		size_t l, c; ref_loc(line0, col0, ref_n, &l, &c);
		CHECK(s->loc.line == l && s->loc.col == c, "scanner location after the token counts physical lines/columns");
	}
	CHECK(!s->usebuf && s->buf.len == 0, "spelling buffer is reset for the next token");
	return 0;
}
