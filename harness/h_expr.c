/* C01-a / C04 / C05 / C03: one binary operator or conversion on operands of concrete types and symbolic values.
 *   real front end:  expr.c:mkbinaryexpr (typing, usual arithmetic conversions)        -> C05: result type
 *   real back end:   qbe.c:funcexpr/convert (instruction selection), executed by il.h  -> C01: run-time value, C03: classes
 *   real folder:     eval.c:eval/binary/cast on the same tree                          -> C04: folded value == run-time value == C value
 * Reference = CBMC's own C semantics of `(LT)a OP (RT)b` at the C types (an independent C11 implementation).
 * Unit included: qbe.c; linked: expr, eval, type, util.  -DLT/-DRT type index, -DOPK operator index, -DCASTMODE for conversions.
 * Type indices: 0 _Bool 1 char 2 schar 3 uchar 4 short 5 ushort 6 int 7 uint 8 long 9 ulong 10 llong 11 ullong 12 float 13 double */
#include "common.h"
#include "qbe.c"
#include "il.h"
struct token tok;
struct expr *__CPROVER_file_local_expr_c_mkbinaryexpr(struct location *, enum tokenkind, struct expr *, struct expr *);
struct expr *__CPROVER_file_local_expr_c_mkconstexpr(struct type *, unsigned long long);
struct expr *__CPROVER_file_local_expr_c_mkexpr(enum exprkind, struct type *, struct expr *);
#define mkbinaryexpr __CPROVER_file_local_expr_c_mkbinaryexpr
#define mkconstexpr __CPROVER_file_local_expr_c_mkconstexpr
#define mkexpr __CPROVER_file_local_expr_c_mkexpr
static bool expect_error;
void error(const struct location *loc, const char *fmt, ...) { CHECK(expect_error, "a well-typed, defined operation is not rejected"); PATH_END(); }
void fatal(const char *fmt, ...) { CHECK(0, "fatal()/internal error reached"); PATH_END(); }
void *xmalloc(size_t n) { void *p = malloc(n); ASSUME(p != 0); return p; }

#define TY_0 _Bool
#define TY_1 char
#define TY_2 signed char
#define TY_3 unsigned char
#define TY_4 short
#define TY_5 unsigned short
#define TY_6 int
#define TY_7 unsigned
#define TY_8 long
#define TY_9 unsigned long
#define TY_10 long long
#define TY_11 unsigned long long
#define TY_12 float
#define TY_13 double
#define CTYPE_(i) TY_##i
#define CTYPE(i) CTYPE_(i)
typedef CTYPE(LT) lt_t;
typedef CTYPE(RT) rt_t;
static struct type *const ctype[] = {&typebool, &typechar, &typeschar, &typeuchar, &typeshort, &typeushort, &typeint, &typeuint,
	&typelong, &typeulong, &typellong, &typeullong, &typefloat, &typedouble};
#define ISFLT(i) ((i) >= 12)
#define TYPEOF_RESULT(x) _Generic((x), _Bool: &typebool, char: &typechar, signed char: &typeschar, unsigned char: &typeuchar, short: &typeshort, \
	unsigned short: &typeushort, int: &typeint, unsigned: &typeuint, long: &typelong, unsigned long: &typeulong, long long: &typellong, \
	unsigned long long: &typeullong, float: &typefloat, double: &typedouble)

/* constant-expression carrier of a value (eval.c's invariant: wrapped to the type, sign- or zero-extended to 64 bits; floats as double) */
#define MKCONST(e, T, idx, v) do { e = mkconstexpr(ctype[idx], 0); if (ISFLT(idx)) e->u.constant.f = (double)(v); \
	else e->u.constant.u = (unsigned long long)(v); } while (0)
static bool same_double(double x, double y) { return (x != x && y != y) || (x == y && (x != 0 || (1 / x > 0) == (1 / y > 0))); }

/* operators */
#if OPK == 0
#define COP *
#define TOP TMUL
#elif OPK == 1
#define COP /
#define TOP TDIV
#elif OPK == 2
#define COP %
#define TOP TMOD
#elif OPK == 3
#define COP +
#define TOP TADD
#elif OPK == 4
#define COP -
#define TOP TSUB
#elif OPK == 5
#define COP <<
#define TOP TSHL
#elif OPK == 6
#define COP >>
#define TOP TSHR
#elif OPK == 7
#define COP <
#define TOP TLESS
#elif OPK == 8
#define COP >
#define TOP TGREATER
#elif OPK == 9
#define COP <=
#define TOP TLEQ
#elif OPK == 10
#define COP >=
#define TOP TGEQ
#elif OPK == 11
#define COP ==
#define TOP TEQL
#elif OPK == 12
#define COP !=
#define TOP TNEQ
#elif OPK == 13
#define COP &
#define TOP TBAND
#elif OPK == 14
#define COP ^
#define TOP TXOR
#elif OPK == 15
#define COP |
#define TOP TBOR
#elif OPK == 16
#define COP &&
#define TOP TLAND
#elif OPK == 17
#define COP ||
#define TOP TLOR
#endif

int main(void) {
	ND(lt_t, a);
	struct location loc = {"<h>", 1, 1};
	struct func f = {0};
	f.start = f.end = mkblock("start");
	struct expr *l, *e;
#ifdef CASTMODE
	/* (RT)a : conversion of a value of type LT to type RT */
#if LT >= 12
	ASSUME(a == a);                                         /* NaN -> integer is undefined; NaN -> float keeps NaN-ness (checked) */
#if RT < 12 && RT != 0
	{ double lo, hi;     /* value must be representable after truncation (C11 6.3.1.4) */
	  static const double los[] = {0, -129, -129, -1, -32769, -1, -2147483649.0, -1, -9223372036854777856.0, -1, -9223372036854777856.0, -1};
	  static const double his[] = {0, 128, 128, 256, 32768, 65536, 2147483648.0, 4294967296.0, 9223372036854775808.0, 18446744073709551616.0, 9223372036854775808.0, 18446744073709551616.0};
	  lo = los[RT]; hi = his[RT]; ASSUME((double)a > lo && (double)a < hi); }
#endif
#endif
	__typeof__((rt_t)a) ref = (rt_t)a;
	MKCONST(l, lt_t, LT, a);
	e = mkexpr(EXPRCAST, ctype[RT], l);
	struct type *want_type = ctype[RT];
#else
	ND(rt_t, b);
	bool defined = true;
	expect_error = false;
	/* definedness of the C operation (C11 6.5): excluded inputs are outside the claim, except division by zero in the folder (C19) */
#if LT >= 12 || RT >= 12
	ASSUME(a == a && b == b);                               /* no NaN operands: payload propagation is unspecified */
#endif
#if OPK == 1 || OPK == 2
	if (b == 0) defined = false;
#endif
#if OPK == 5 || OPK == 6
	{ __typeof__(+a) pa = a; if ((long long)b < 0 || (unsigned long long)b >= sizeof(pa) * 8) defined = false;
#if OPK == 5
	  if ((__typeof__(+a))-1 < 0) { if (pa < 0) defined = false; else if (defined && ((unsigned long long)pa >> (sizeof(pa) * 8 - 1 - (unsigned)b)) != 0) defined = false; }
#endif
	}
#endif
#if (OPK <= 4) && LT < 12 && RT < 12
	{ __typeof__((a) + (b)) ca = a, cb = b; (void)ca; (void)cb;
	  if ((__typeof__(ca))-1 < 0) {                          /* signed arithmetic must not overflow */
#if defined(SMALLOPS) && OPK == 0
		__int128 wa = ca, wb = cb, wr = 0;        /* |a|,|b| < 2^14: the product cannot overflow int */
#else
		__int128 wa = ca, wb = cb, wr = OPK == 0 ? wa * wb : OPK == 3 ? wa + wb : OPK == 4 ? wa - wb : 0;
#endif
		if (OPK == 0 || OPK == 3 || OPK == 4) if (wr != (__int128)(__typeof__(ca))wr) defined = false;
		if ((OPK == 1 || OPK == 2) && cb == -1 && wa == -(__int128)1 << (sizeof(ca) * 8 - 1)) defined = false;
	  } }
#endif
#if defined(SMALLOPS) && LT < 12 && RT < 12
	/* multiplier/divider equivalence at 64 bits does not finish on the SAT back ends (and CBMC's SMT2 back end aborts on the
	 * constant union): values are restricted to |x| < 2^SMALLOPS */
	{ long long sa = (long long)a, sb = (long long)b; unsigned long long ua = (unsigned long long)a, ub = (unsigned long long)b;
	  ASSUME(sa > -(1ll << SMALLOPS) && sa < (1ll << SMALLOPS) && ua == (unsigned long long)sa);
	  ASSUME(sb > -(1ll << SMALLOPS) && sb < (1ll << SMALLOPS) && ub == (unsigned long long)sb);
	  if (WANT == 7 || WANT == 9 || WANT == 11) ASSUME(sa >= 0 && sb >= 0);   /* negative operands become ~2^64 in an unsigned result type */ }
#endif
#ifndef FOLD_DIVZERO
	ASSUME(defined);
#else
	ASSUME(!defined);
#endif
	__typeof__(a COP b) ref = defined ? (a COP b) : 0;
	struct expr *r;
#ifdef PTRMODE
	/* both operands are pointers to int (addresses symbolic); the pointer type objects come fresh from the allocator, so every field the
	 * back end consults must have been initialised by mkpointertype (C20: no output bit may depend on allocator garbage) */
	struct type *pt1 = mkpointertype(&typeint, QUALNONE), *pt2 = mkpointertype(&typeint, QUALNONE);
	l = mkconstexpr(pt1, (unsigned long long)a); r = mkconstexpr(pt2, (unsigned long long)b);
#else
	MKCONST(l, lt_t, LT, a);
	MKCONST(r, rt_t, RT, b);
#endif
	e = mkbinaryexpr(&loc, TOP, l, r);
	struct type *want_type = ctype[WANT];     /* computed by the generator from C11 6.3.1.1 / 6.3.1.8 (LP64), see props/exprlib.py */
#if OPK <= 6 || (OPK >= 13 && OPK <= 15)    /* CBMC types comparison/logical results as _Bool internally: no cross-check there */
	CHECK(sizeof(ref) == ctype[WANT]->size && ((__typeof__(ref))-1 < 0) == (ctype[WANT]->prop & PROPFLOAT ? true : UBASIC(ctype[WANT]).issigned), "generator's expected type agrees with CBMC's C front end in size and signedness");
#endif
#endif
	/* the types chosen by the front end are asserted and then pinned: symex keeps the result of typecommonreal() as an unsimplified
	 * conditional pointer, which otherwise turns the lowering and its interpretation semi-symbolic (minutes instead of seconds) */
	if (e->type != want_type) { CHECK(0, "expression has the type C11 assigns it (usual arithmetic conversions / promotions)"); PATH_END(); }
	e->type = want_type;
#ifndef CASTMODE
#ifndef PTRMODE
	{ struct expr *cl = e->u.binary.l, *cr = e->u.binary.r;
	  if (cl->type != ctype[LCONV] || cr->type != ctype[RCONV]) { CHECK(0, "operands are converted to the types C11 prescribes for this operator"); PATH_END(); }
	  cl->type = ctype[LCONV]; cr->type = ctype[RCONV]; }
#endif
#endif
#ifdef ONLY_TYPE
	WITNESS_POINT();
	return 0;
#endif
#if !defined(FOLD_DIVZERO) && !defined(ONLY_FOLD)
	/* ---- run-time side: lower with the real back end and execute the IL ---- */
	struct value *v = funcexpr(&f, e);
	funcret(&f, v);
	il_run(f.start, 0, 0);
	CHECK(IL_WELLFORMED(), "emitted IL is well-formed: every temporary defined once before use, operand and result classes admitted by each instruction");
	CHECK(il_endkind == JUMP_RET, "straight-line lowering ends in the block we terminated");
	int cls = qbetype(e->type).base;
	unsigned long long got = il_val(v, cls);
	bool rt_ok;
	if (cls == 's') rt_ok = same_double((double)il_f32(got), (double)ref);
	else if (cls == 'd') rt_ok = same_double(il_f64(got), (double)ref);
	else if (e->type->size == 8) rt_ok = got == (unsigned long long)ref;
	else if (e->type->size == 4) rt_ok = (unsigned)got == (unsigned)ref;
	else if (e->type->size == 2) rt_ok = (unsigned short)got == (unsigned short)ref;
	else rt_ok = (unsigned char)got == (unsigned char)ref;
	WITNESS_POINT();
	CHECK(rt_ok, "emitted code computes the value C prescribes");
#endif
#ifdef ONLY_RT
	return 0;
#endif
	/* ---- compile-time side: fold the same tree ---- */
#ifdef FOLD_DIVZERO
	expect_error = true;
#endif
	struct expr *c = eval(e);
#ifdef FOLD_DIVZERO
	WITNESS_POINT();
	/* reaching this point means the folder returned: only acceptable when the divisor is not zero (MIN / -1: any value, but no trap - the
	 * instance runs with --div-by-zero-check --signed-overflow-check on the real eval.c) */
	CHECK(b != 0, "division by zero in a constant expression is diagnosed");
#else
#ifdef ONLY_FOLD
	WITNESS_POINT();
#endif
	CHECK(c->kind == EXPRCONST, "constant operands fold to a constant");
	bool fold_ok;
	if (e->type->prop & PROPFLOAT) fold_ok = same_double(e->type->size == 4 ? (double)(float)c->u.constant.f : c->u.constant.f, (double)ref) && (e->type->size == 8 || (double)(float)c->u.constant.f == c->u.constant.f || c->u.constant.f != c->u.constant.f);
	else fold_ok = c->u.constant.u == (unsigned long long)ref;       /* carrier: sign-/zero-extended value of the result type */
	CHECK(fold_ok, "folded constant equals the value C prescribes (and therefore the run-time value), in canonical representation");
#endif
	return 0;
}
