/* C05: typing of binary operators over all pairs of arithmetic types, including bit-field operands of symbolic width.
 * Real code: expr.c:mkbinaryexpr/commonreal/exprpromote/bitfieldwidth, type.c:typepromote/typecommonreal/typerank.
 * Expected types: table generated from C11 6.3.1.1/6.3.1.8 for LP64 (want.inc), bit-field promotion rule written out below.
 * Units linked: expr, eval, type, util. -DOPK operator index (see h_expr.c), -DBF: left operand is a bit-field. */
#include "common.h"
#include "util.h"
#include "cc.h"
struct token tok;
struct expr *__CPROVER_file_local_expr_c_mkbinaryexpr(struct location *, enum tokenkind, struct expr *, struct expr *);
struct expr *__CPROVER_file_local_expr_c_mkconstexpr(struct type *, unsigned long long);
struct expr *__CPROVER_file_local_expr_c_mkexpr(enum exprkind, struct type *, struct expr *);
#define mkbinaryexpr __CPROVER_file_local_expr_c_mkbinaryexpr
#define mkconstexpr __CPROVER_file_local_expr_c_mkconstexpr
#define mkexpr __CPROVER_file_local_expr_c_mkexpr
static bool expect_error;
void error(const struct location *loc, const char *fmt, ...) { CHECK(expect_error, "operands of arithmetic type are accepted exactly where C11 6.5 allows them"); PATH_END(); }
void fatal(const char *fmt, ...) { CHECK(0, "fatal()/internal error reached"); PATH_END(); }
void *xmalloc(size_t n) { void *p = malloc(n); ASSUME(p != 0); return p; }
#ifdef BF
#define NLEFT 12
#else
#define NLEFT 14
#endif
#include "want.inc"    /* static const signed char WANT[14][14]: expected result type index, -1 = constraint violation */
static struct type *const ctype[] = {&typebool, &typechar, &typeschar, &typeuchar, &typeshort, &typeushort, &typeint, &typeuint,
	&typelong, &typeulong, &typellong, &typeullong, &typefloat, &typedouble};
static const enum tokenkind ops[] = {TMUL, TDIV, TMOD, TADD, TSUB, TSHL, TSHR, TLESS, TGREATER, TLEQ, TGEQ, TEQL, TNEQ, TBAND, TXOR, TBOR, TLAND, TLOR};
int main(void) {
	struct location loc = {"<h>", 1, 1};
#ifdef BF
	ND(unsigned, bfwidth); ND(unsigned, bfbefore); const unsigned width = bfwidth, before = bfbefore;
#endif
	ND(int, rsel); const int r = rsel;
	ASSUME(r >= 0 && r < 14);
	{
		const int l = LEFT;                /* left type concrete per instance, right type symbolic (finite-state decision) */
		struct expr *le = mkconstexpr(ctype[l], 0), *re = mkconstexpr(ctype[r], 0);
		int lidx = l;
#ifdef BF
		/* left operand: bit-field of declared type l and symbolic width; promoted per 6.3.1.1p2 (int if it can hold all values, else unsigned int;
		 * wider than int: keeps its declared type) */
		unsigned bits = ctype[l]->size * 8;
		ASSUME(width >= 1 && width <= 64 && before < 64);
		ASSUME(width <= bits && before + width <= bits && (l != 0 || width == 1));
		struct expr *bf = mkexpr(EXPRBITFIELD, ctype[l], le);
		bf->u.bitfield.bits.before = before; bf->u.bitfield.bits.after = bits - width - before;
		le = bf;
		bool sgn = UBASIC(ctype[l]).issigned;
		if (width < 32 || (width == 32 && sgn)) lidx = 6; else if (width == 32) lidx = 7; else lidx = l;
#endif
		int want = WANT[lidx][r];
		expect_error = want < 0;
		struct expr *e = mkbinaryexpr(&loc, ops[OPK], le, re);
		CHECK(want >= 0, "operand types that violate the operator's constraints are diagnosed");
		if (want >= 0) CHECK(e->type == ctype[want], "expression has the type C11 assigns it (integer promotions incl. bit-fields by width, usual arithmetic conversions)");
	}
	WITNESS_POINT();
	return 0;
}
