/* C09: linkage is a finite-state decision; decl.c:getlinkage and declcommon are checked as step functions over a symbolic
 * argument tuple (kind, storage class, scope, prior declaration with symbolic linkage/type-compatibility) against an
 * independent transcription of C11 6.2.2p3-7 and the 6.7p3/6.9p3 constraints.  Unit included: decl.c; linked: type, scope(model). */
#include "common.h"
#include "decl.c"
struct token tok;
static bool expect_error, got_error;
void error(const struct location *loc, const char *fmt, ...) { CHECK(expect_error, "a redeclaration that C11 allows is accepted"); got_error = true; PATH_END(); }
void fatal(const char *fmt, ...) { CHECK(0, "fatal() reached"); PATH_END(); }
void *xmalloc(size_t n) { void *p = malloc(n); ASSUME(p != 0); return p; }
/* scope.c replaced by a one-name model: what is visible in the current scope, in the enclosing scopes, at file scope */
static struct decl *vis_outer, *vis_file; static struct decl *put_decl; static struct scope *put_scope;
struct scope filescope;
struct decl *scopegetdecl(struct scope *s, const char *name, bool recurse) { return s == &filescope ? vis_file : vis_outer; }
void scopeputdecl(struct scope *s, struct decl *d) { put_decl = d; put_scope = s; }
static struct type tint = {.kind = TYPEINT, .size = 4, .align = 4}, tlong = {.kind = TYPELONG, .size = 8, .align = 8};
bool typecompatible(struct type *a, struct type *b) { return a == b; }
struct type *typecomposite(struct type *a, struct type *b) { return a; }

/* C11 6.2.2 */
static enum linkage ref_linkage(bool isfunc, enum storageclass sc, bool file, bool have_prior, enum linkage prior_linkage) {
	if (sc & SCSTATIC) return file ? LINKINTERN : LINKNONE;                       /* p3; block-scope static object: no linkage (p6) */
	if ((sc & SCEXTERN) || isfunc)                                                /* p4, p5 (function without storage class = extern) */
		return have_prior && prior_linkage != LINKNONE ? prior_linkage : LINKEXTERN;
	return file ? LINKEXTERN : LINKNONE;                                          /* p5 objects at file scope; p6 */
}
int main(void) {
	ND(bool, isfunc); ND(unsigned, scbits); ND(bool, file); ND(bool, have_same); ND(bool, have_outer); ND(unsigned, plink); ND(bool, sametype); ND(bool, priorisfunc);
	enum storageclass sc = scbits == 0 ? SCNONE : scbits == 1 ? SCSTATIC : scbits == 2 ? SCEXTERN : scbits == 3 ? SCTHREADLOCAL | SCSTATIC : SCTHREADLOCAL | SCEXTERN;
	ASSUME(scbits <= 4 && plink <= 2);
	if (isfunc) ASSUME(scbits <= 2);
	if (isfunc && !file) ASSUME(scbits != 1);                 /* block-scope static function: rejected earlier in decl() */
	static struct decl prior, outer;
	prior.linkage = plink; prior.type = sametype ? &tint : &tlong; prior.kind = priorisfunc ? DECLFUNC : DECLOBJECT; prior.name = "x";
	outer = prior;
	static struct scope inner; inner.parent = &filescope;
	struct scope *s = file ? &filescope : &inner;
	filescope.parent = NULL;
	/* a prior declaration in the same scope of the same kind (decl() passes it only then); or one visible from an enclosing scope */
	struct decl *same = have_same ? &prior : NULL;
	if (have_same) ASSUME(priorisfunc == isfunc);
	vis_outer = (!file && have_outer) ? &outer : NULL;
	vis_file = vis_outer;
	ASSUME(!(have_same && have_outer));
	if (file) ASSUME(!have_outer);
	/* reference */
	bool have_prior = have_same || (vis_outer != NULL);
	enum linkage pl = plink;
	enum linkage want = ref_linkage(isfunc, sc, file, have_prior, pl);
	bool bad = false;
	if (have_same) {
		if (pl == LINKNONE) bad = true;                                        /* 6.7p3: no redeclaration of identifiers without linkage */
		else if (want != pl) bad = true;                                       /* 6.2.2p7 / static after extern */
		else if (!sametype) bad = true;                                        /* 6.7p4 */
	} else if (vis_outer && want != LINKNONE && pl != LINKNONE) {
		if (priorisfunc != isfunc) bad = true;
		else if (want != pl) bad = true;
		else if (!sametype) bad = true;
	}
	expect_error = bad;
	char *asmname = NULL;
#ifdef VARIANT_B
	/* assembler labels: a redeclaration may repeat the label but not introduce or change it */
	ND(bool, have_asm); ND(bool, prior_has_asm); ND(bool, same_asm);
	static char a1[] = "lbl", a2[] = "other", a3[] = "lbl";
	prior.asmname = prior_has_asm ? a1 : NULL; outer.asmname = prior.asmname;
	asmname = have_asm ? (same_asm ? a3 : a2) : NULL;
	bool checked = have_same || (vis_outer && want != LINKNONE && pl != LINKNONE);
	if (!bad && checked && have_asm && (!prior_has_asm || !same_asm)) { bad = true; expect_error = true; }
#endif
	struct decl *d = declcommon(s, isfunc ? DECLFUNC : DECLOBJECT, "x", asmname, &tint, QUALNONE, sc, same);
#ifdef VARIANT_B
	if (!bad && !have_same) CHECK(d->asmname == (have_asm ? asmname : (vis_outer && want != LINKNONE && pl != LINKNONE ? prior.asmname : NULL)), "assembler label is kept verbatim / inherited from the visible declaration");
#endif
	WITNESS_POINT();
	CHECK(!bad, "an invalid redeclaration (different linkage, incompatible type, kind, or of an identifier without linkage) is diagnosed");
	CHECK(d->linkage == want, "the declaration gets the linkage C11 6.2.2 prescribes (inheriting a visible prior declaration's)");
	if (have_same) CHECK(d == &prior, "redeclaration in the same scope denotes the same entity");
	else CHECK(put_decl == d && put_scope == s, "a new declaration is entered into the current scope");
	return 0;
}
