"""Tiny C tokenizer for harness skeletons: turns a C snippet into push() calls for harness/h_parse.c (token kinds concrete)."""
import re
from core import Inst

KEYWORDS = {
    'alignas': 'TALIGNAS', '_Alignas': 'TALIGNAS', 'alignof': 'TALIGNOF', '_Alignof': 'TALIGNOF', 'auto': 'TAUTO', 'bool': 'TBOOL', '_Bool': 'TBOOL', 'break': 'TBREAK',
    'case': 'TCASE', 'char': 'TCHAR', 'const': 'TCONST', 'constexpr': 'TCONSTEXPR', 'continue': 'TCONTINUE', 'default': 'TDEFAULT', 'do': 'TDO', 'double': 'TDOUBLE',
    'else': 'TELSE', 'enum': 'TENUM', 'extern': 'TEXTERN', 'false': 'TFALSE', 'float': 'TFLOAT', 'for': 'TFOR', 'goto': 'TGOTO', 'if': 'TIF', 'inline': 'TINLINE',
    'int': 'TINT', 'long': 'TLONG', 'nullptr': 'TNULLPTR', 'register': 'TREGISTER', 'restrict': 'TRESTRICT', 'return': 'TRETURN', 'short': 'TSHORT', 'signed': 'TSIGNED',
    'sizeof': 'TSIZEOF', 'static': 'TSTATIC', 'static_assert': 'TSTATIC_ASSERT', '_Static_assert': 'TSTATIC_ASSERT', 'struct': 'TSTRUCT', 'switch': 'TSWITCH',
    'thread_local': 'TTHREAD_LOCAL', '_Thread_local': 'TTHREAD_LOCAL', 'true': 'TTRUE', 'typedef': 'TTYPEDEF', 'typeof': 'TTYPEOF', 'typeof_unqual': 'TTYPEOF_UNQUAL',
    'union': 'TUNION', 'unsigned': 'TUNSIGNED', 'void': 'TVOID', 'volatile': 'TVOLATILE', 'while': 'TWHILE', '_Atomic': 'T_ATOMIC', '_Complex': 'T_COMPLEX',
    '_Generic': 'T_GENERIC', '_Noreturn': 'T_NORETURN', '__asm__': 'T__ASM__', '__attribute__': 'T__ATTRIBUTE__',
    '__inline': 'TINLINE', '__inline__': 'TINLINE', '__signed': 'TSIGNED', '__signed__': 'TSIGNED', '__thread': 'TTHREAD_LOCAL', '__typeof': 'TTYPEOF', '__typeof__': 'TTYPEOF',
    '__alignof__': 'TALIGNOF', '__asm': 'T__ASM__', '__volatile__': 'TVOLATILE',
}
PUNCT = [('...', 'TELLIPSIS'), ('<<=', 'TSHLASSIGN'), ('>>=', 'TSHRASSIGN'), ('->', 'TARROW'), ('++', 'TINC'), ('--', 'TDEC'), ('<<', 'TSHL'), ('>>', 'TSHR'),
         ('<=', 'TLEQ'), ('>=', 'TGEQ'), ('==', 'TEQL'), ('!=', 'TNEQ'), ('&&', 'TLAND'), ('||', 'TLOR'), ('*=', 'TMULASSIGN'), ('/=', 'TDIVASSIGN'),
         ('%=', 'TMODASSIGN'), ('+=', 'TADDASSIGN'), ('-=', 'TSUBASSIGN'), ('&=', 'TBANDASSIGN'), ('^=', 'TXORASSIGN'), ('|=', 'TBORASSIGN'), ('::', 'TCOLONCOLON'),
         ('[', 'TLBRACK'), (']', 'TRBRACK'), ('(', 'TLPAREN'), (')', 'TRPAREN'), ('{', 'TLBRACE'), ('}', 'TRBRACE'), ('.', 'TPERIOD'), ('&', 'TBAND'), ('*', 'TMUL'),
         ('+', 'TADD'), ('-', 'TSUB'), ('~', 'TBNOT'), ('!', 'TLNOT'), ('/', 'TDIV'), ('%', 'TMOD'), ('<', 'TLESS'), ('>', 'TGREATER'), ('^', 'TXOR'), ('|', 'TBOR'),
         ('?', 'TQUESTION'), (':', 'TCOLON'), (';', 'TSEMICOLON'), ('=', 'TASSIGN'), (',', 'TCOMMA')]


def tokenize(src):
    src = re.sub(r'/\*.*?\*/', ' ', src, flags=re.S)       # comments are white space
    src = re.sub(r'//[^\n]*', ' ', src)
    out = []
    i, line = 0, 1
    while i < len(src):
        c = src[i]
        if c == '\n':
            line += 1
            i += 1
            continue
        if c.isspace():
            i += 1
            continue
        m = re.match(r'[A-Za-z_]\w*', src[i:])
        if m and not (src[i] in 'LuU' and i + 1 < len(src) and src[i + 1] in '\'"'):
            w = m.group(0)
            out.append((KEYWORDS.get(w, 'TIDENT'), None if w in KEYWORDS else w, line))
            i += len(w)
            continue
        m = re.match(r'\.?\d(?:[eEpP][+-]|[\w.])*', src[i:])
        if m:
            out.append(('TNUMBER', m.group(0), line))
            i += len(m.group(0))
            continue
        m = re.match(r'(?:u8|[LuU])?"(?:\\.|[^"\\])*"', src[i:])
        if m:
            out.append(('TSTRINGLIT', m.group(0), line))
            i += len(m.group(0))
            continue
        m = re.match(r"(?:u8|[LuU])?'(?:\\.|[^'\\])*'", src[i:])
        if m:
            out.append(('TCHARCONST', m.group(0), line))
            i += len(m.group(0))
            continue
        for p, k in PUNCT:
            if src.startswith(p, i):
                out.append((k, None, line))
                i += len(p)
                break
        else:
            raise ValueError('cannot tokenize at %r' % src[i:i + 10])
    return out


def cstr(s):
    return '"' + s.replace('\\', '\\\\').replace('"', '\\"') + '"'


def tokens_inc(src, checks='', maxtok=320):
    assert len(tokenize(src)) < maxtok, 'skeleton too long for the token feeder'
    body = ''.join('\tpush(%s, %s, %d);\n' % (k, cstr(l) if l is not None else '0', ln) for k, l, ln in tokenize(src))
    return 'static void feed_tokens(void) {\n%s}\nstatic void checks(void) {\n%s}\n' % (body, checks)


def mapcap():
    """largest initial capacity passed to mapinit() anywhere in the tree: sizes the harnesses' typed table rows and the loop bounds of map.c"""
    import glob, os, core
    caps = [64]
    for f in glob.glob(os.path.join(core.REPO, '*.c')):
        caps += [int(m) for m in re.findall(r'mapinit\([^,()]+(?:\([^)]*\))?[^,()]*,\s*(\d+)\s*\)', open(f).read())]
    return max(caps)


def map_unwindset():
    c = mapcap()
    return ['mapinit.0:%d' % (c + 6), '__CPROVER_file_local_map_c_keyindex.0:%d' % (c + 2), 'mapfree.0:%d' % (c + 2), 'mapput.0:%d' % (c + 2), 'mapput.1:%d' % (c + 2)]


UNITS = ['decl', 'stmt', 'expr', 'eval', 'init', 'type', 'scope', 'attr', 'map', 'util', 'targ', 'tree', 'utf', 'token', 'qbe']
OVERRIDES = ['error', 'fatal', 'xmalloc', 'xreallocarray']


def parse_inst(name, src, expect_error, fam, checks='', record=False, errline=None, errmsg=None, target='x86_64-sysv', timeout=300, unwind=10, extra_defs=None, witness=True, maxtok=320):
    defs = {'EXPECT_ERROR': 1 if expect_error else 0, 'TARGETNAME': '"%s"' % target}
    if record:
        defs['RECORD'] = None
    if errline is not None:
        defs['ERRLINE'] = errline
    if errmsg is not None:
        defs['ERRMSG'] = '"%s"' % errmsg
    if expect_error:
        defs['WITNESS_IN_ERROR'] = None
    if extra_defs:
        defs.update(extra_defs)
    if mapcap() != 64:
        defs['MAPCAP'] = mapcap()
    if maxtok == 'fit':      # token array just large enough (large arrays of structs slow symbolic execution down)
        maxtok = (len(tokenize(src)) + 8 + 31) // 32 * 32
    if maxtok != 320:
        defs['MAXTOK'] = maxtok
    ov = OVERRIDES + (['emitfunc', 'emitdata'] if record else [])
    return Inst(name, 'h_parse.c', defs, units=UNITS, overrides=ov, native_units=['scan', 'pp'], unwind=unwind, family=fam, timeout=timeout, mem_gb=12,
                unwindset=map_unwindset() + ['strlen.0:40', 'strcmp.0:40', 'memcmp.0:40', 'scopeinit.0:16', '__CPROVER_file_local_map_c_hash.0:40'], files={'tokens.inc': tokens_inc(src, checks, maxtok)},
                witness=witness, bound={'skeleton': src.strip()[:120], 'expect_error': expect_error})
