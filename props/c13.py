from core import Inst

META = {
    'functions': ['scan.c:nextchar', 'scan.c:op2', 'scan.c:op3', 'scan.c:op4', 'scan.c:ident', 'scan.c:number', 'scan.c:escape',
                  'scan.c:charconst', 'scan.c:stringlit', 'scan.c:comment', 'scan.c:scankind', 'scan.c:scan', 'scan.c:scanfrom',
                  'scan.c:bufadd', 'scan.c:bufget', 'pp.c:keyword'],
    'bounds': {},
    'stubs': ['getc/ungetc = nondet byte array with concrete first byte', 'error() ends the path after asserting the reference also rejects',
              'xreallocarray growth cut (first allocation only)', 'verif_again hook ends the step at scanner re-entry'],
    'outside': ['tokens longer than N bytes', 'multi-file scanner chaining', 'UCNs, digraphs, trigraphs (unsupported upstream)',
                'backslash-newline inside tokens (nextchar is verified separately as the phase-2 filter)'],
}


PREFIX_FIRST = (ord('L'), ord('U'), ord('u'), ord('\\'))


def scan_instances(tier, fam='scan', extra_defs=None, safety=False):
    n = 4 if tier == 'quick' else 6
    L = []

    def add(name, defs, nn, first):
        if extra_defs:
            defs.update(extra_defs)
        L.append(Inst(name, 'h_scan.c', defs, units=[], unwind=nn + 3, unwindset=['strchr.0:14', 'nextchar.0:2'], family=fam,
                      safety=safety, timeout=90 if tier == 'quick' else 900, mem_gb=8 if tier == 'quick' else 24,
                      bound={'first_byte': first, 'bytes': nn, **{k: v for k, v in defs.items() if k in ('SECOND', 'THIRD')}}))
    for first in list(range(256)) + [-1]:
        nn = n
        if tier == 'thorough' and first in (ord('"'), ord("'")):
            nn = 5
        if first in PREFIX_FIRST:
            # a second dispatch happens on the next byte (prefix -> quote / backslash look-ahead): concretise it too
            if tier == 'thorough':
                nn = 5
            for second in list(range(256)) + [-1]:
                if first == ord('\\') and second == ord('\n'):
                    continue        # a splice, not a token (h_nextchar.c)
                add('%s.first%03d.s%03d.n%d' % (fam, first, second if second >= 0 else 256, nn),
                    {'FIRST': first, 'SECOND': second, 'N': nn}, nn, first)
            continue
        add('%s.first%03d.n%d' % (fam, first if first >= 0 else 256, nn), {'FIRST': first, 'N': nn}, nn, first)
    return L


def instances(build, tier, seed):
    META['bounds']['scan'] = '257 concrete first bytes (incl. EOF) x symbolic continuation, N=%d bytes per token' % (4 if tier == 'quick' else 6)
    L = scan_instances(tier)
    nn = 5 if tier == 'quick' else 7
    L.append(Inst('nextchar.n%d' % nn, 'h_nextchar.c', {'N': nn}, units=['token', 'util'], unwind=nn + 3, family='nextchar',
                  timeout=120 if tier == 'quick' else 900, bound={'bytes': nn, 'splices': 'anywhere'}))
    L.append(Inst('keyword.len14', 'h_keyword.c', {'LEN_': 14}, units=['scan', 'token', 'util', 'map'], overrides=['error'], unwind=17,
                  unwindset=['main.3:75', 'strcmp.0:17', 'keyword.0:9'], family='keyword', timeout=300 if tier == 'quick' else 900,
                  bound={'identifier_bytes': 14}))
    META['bounds']['nextchar'] = 'all byte strings of length <= %d, backslash-newline anywhere' % nn
    META['bounds']['keyword'] = 'all identifiers of <= 14 bytes (the longest keyword has 14)'
    return L
