"""instance generator shared by C01 (run-time lowering), C04 (folding) and C05 (typing): harness/h_expr.c"""
from core import Inst

TYPES = ['bool', 'char', 'schar', 'uchar', 'short', 'ushort', 'int', 'uint', 'long', 'ulong', 'llong', 'ullong', 'float', 'double']
OPS = ['mul', 'div', 'mod', 'add', 'sub', 'shl', 'shr', 'lt', 'gt', 'le', 'ge', 'eq', 'ne', 'and', 'xor', 'or', 'land', 'lor']
INTONLY = {2, 5, 6, 13, 14, 15}
NATIVE = ['tree', 'util', 'token', 'map', 'type', 'decl', 'expr', 'eval', 'init', 'scope', 'targ', 'attr', 'stmt', 'utf', 'scan', 'pp']


RANK = {0: 1, 1: 2, 2: 2, 3: 2, 4: 3, 5: 3, 6: 4, 7: 4, 8: 5, 9: 5, 10: 6, 11: 6}
SIGNED = {0: False, 1: True, 2: True, 3: False, 4: True, 5: False, 6: True, 7: False, 8: True, 9: False, 10: True, 11: False}
SIZE = {0: 1, 1: 1, 2: 1, 3: 1, 4: 2, 5: 2, 6: 4, 7: 4, 8: 8, 9: 8, 10: 8, 11: 8}
UNSIGNED_OF = {6: 7, 8: 9, 10: 11}


def promote(t):
    """C11 6.3.1.1p2 on LP64: everything of rank below int fits in int"""
    if t >= 12:
        return t
    return 6 if RANK[t] < 4 else t


def common(l, r):
    """C11 6.3.1.8 usual arithmetic conversions (no long double)"""
    if l == 13 or r == 13:
        return 13
    if l == 12 or r == 12:
        return 12
    l, r = promote(l), promote(r)
    if l == r:
        return l
    if SIGNED[l] == SIGNED[r]:
        return l if RANK[l] > RANK[r] else r
    u, s = (l, r) if not SIGNED[l] else (r, l)
    if RANK[u] >= RANK[s]:
        return u
    if SIZE[s] > SIZE[u]:
        return s
    return UNSIGNED_OF[s]


def result_type(opk, l, r):
    if opk in (5, 6):
        return promote(l)
    if opk in (7, 8, 9, 10, 11, 12, 16, 17):
        return 6
    return common(l, r)


def operand_types(opk, l, r):
    """types of the two operands after the conversions the operator applies (6.5.5-6.5.14)"""
    if opk in (5, 6):
        return promote(l), promote(r)
    if opk in (16, 17):
        return l, r
    c = common(l, r)
    return c, c


def pairs(tier, seed, full_for):
    """type pairs: quick = a covering sample (every type on each side with a small, a same-size and a large partner), thorough = all"""
    n = len(TYPES)
    if tier == 'thorough' or full_for:
        return [(l, r) for l in range(n) for r in range(n)]
    reps = [2, 3, 6, 7, 8, 11, 13]      # schar uchar int uint long ullong double: every size/signedness class and one float
    return [(l, r) for l in reps for r in reps]


def expr_instances(tier, seed, mode, fam, ops=None, full=False, safety=False):
    """mode: 'ONLY_TYPE' | 'ONLY_RT' | 'ONLY_FOLD'"""
    L = []
    for opk, opn in enumerate(OPS):
        if ops is not None and opn not in ops:
            continue
        for (l, r) in pairs(tier, seed, full):
            if opk in INTONLY and (l >= 12 or r >= 12):
                continue
            heavy = opk in (0, 1, 2)
            flt = l >= 12 or r >= 12
            if flt and opk in (0, 1) and mode != 'ONLY_TYPE':
                continue
            if (l == 13 or r == 13) and opk in (3, 4) and mode != 'ONLY_TYPE' and tier == 'quick':
                continue      # double-precision adders: minutes per instance on SAT, thorough tier only (float + - stay in quick)      # float * and /: SAT/SMT do not finish within the cap (measured); operand routing is covered by + and -
            variants = [({}, ['sat'], False, '')]
            if heavy and mode == 'ONLY_RT' and opk == 0:
                variants = [({}, ['z3s', 'sat'], False, '')]      # run-time side only: z3 decides the full range of a multiplication in about a second
            elif heavy and mode == 'ONLY_RT':
                variants = [({'SMALLOPS': 10 if tier == 'quick' else 14}, ['sat'], False, '.small'), ({}, ['z3s'], True, '.full')]
            elif heavy and mode != 'ONLY_TYPE':
                # 64-bit multiplier/divider equivalence: SAT back ends do not finish; z3 (+ --slice-formula, which also avoids an smt2_conv
                # invariant failure on eval.c's constant union) usually answers on the full range in seconds.  A small-range SAT variant
                # always runs, the full-range z3 variant is "optional" (no verdict within the cap is reported, not an error).
                variants = [({'SMALLOPS': 10 if tier == 'quick' else 14}, ['sat'], False, '.small'), ({}, ['z3s'], True, '.full')]
                if opk == 0:
                    # multiplication: z3 usually answers on the full range in seconds (SAT not even on small ranges), but not reliably under load
                    variants = [({'SMALLOPS': 10 if tier == 'quick' else 14}, ['z3s'], True, '.small'), ({}, ['z3s'], True, '.full')]
            for defs_extra, backends, optional, suffix in variants:
                L.append(Inst('%s.%s.%s.%s%s' % (fam, opn, TYPES[l], TYPES[r], suffix), 'h_expr.c',
                              dict({'LT': l, 'RT': r, 'OPK': opk, 'WANT': result_type(opk, l, r), 'LCONV': operand_types(opk, l, r)[0],
                                    'RCONV': operand_types(opk, l, r)[1], mode: None}, **defs_extra),
                              units=['expr', 'eval', 'type', 'util'], overrides=['fatal', 'xmalloc', 'error'], native_units=NATIVE, unwind=4,
                              unwindset=['il_run.0:24', 'il_is_stop.0:14', 'il_run.1:70'], family=fam + '.' + opn, backends=backends, safety=safety, optional=optional, witness=not (heavy and mode == 'ONLY_FOLD' and (optional or opk == 0)),
                              timeout=(60 if optional else 240) if tier == 'quick' else 900, mem_gb=8 if tier == 'quick' else 16,
                              bound={'operator': opn, 'left': TYPES[l], 'right': TYPES[r],
                                     'values': ('|x| < 2^%d' % defs_extra['SMALLOPS']) if defs_extra else 'all (symbolic), minus undefined behaviour'}))
    return L


def ptrcmp_instances(tier, seed, mode, fam):
    """relational/equality operators on two pointers to int with symbolic addresses (unsigned comparison of 64-bit values)"""
    L = []
    for opk in (7, 8, 9, 10, 11, 12):
        L.append(Inst('%s.%s.ptr.ptr' % (fam, OPS[opk]), 'h_expr.c', {'LT': 9, 'RT': 9, 'OPK': opk, 'WANT': 6, 'LCONV': 9, 'RCONV': 9, 'PTRMODE': None, mode: None},
                      units=['expr', 'eval', 'type', 'util'], overrides=['fatal', 'xmalloc', 'error'], native_units=NATIVE, unwind=4,
                      unwindset=['il_run.0:24', 'il_is_stop.0:14', 'il_run.1:70'], family=fam + '.ptrcmp', backends=['sat'], timeout=120,
                      bound={'operator': OPS[opk], 'operands': 'pointers to int, symbolic addresses, freshly allocated pointer types'}))
    return L


def cast_instances(tier, seed, mode, fam, safety=False):
    L = []
    for l in range(len(TYPES)):
        for r in range(len(TYPES)):
            L.append(Inst('%s.cast.%s.to.%s' % (fam, TYPES[l], TYPES[r]), 'h_expr.c', {'LT': l, 'RT': r, 'CASTMODE': None, mode: None},
                          units=['expr', 'eval', 'type', 'util'], overrides=['fatal', 'xmalloc', 'error'], native_units=NATIVE, unwind=4,
                          unwindset=['il_run.0:24', 'il_is_stop.0:14', 'il_run.1:70'], family=fam + '.cast', backends=['sat'], safety=safety,
                          timeout=120 if tier == 'quick' else 900, mem_gb=8 if tier == 'quick' else 16,
                          bound={'conversion': '%s -> %s' % (TYPES[l], TYPES[r]), 'values': 'all representable (symbolic)'}))
    return L
