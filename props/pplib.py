"""C12 (expansion): raw token sequences for harness/h_ppx.c and the expected expanded sequence from the platform preprocessor."""
import os, re, subprocess, tempfile, hashlib, json
from core import Inst
import parselib

PUNCT = [('...', 'TELLIPSIS'), ('<<=', 'TSHLASSIGN'), ('>>=', 'TSHRASSIGN'), ('##', 'THASHHASH'), ('->', 'TARROW'), ('++', 'TINC'), ('--', 'TDEC'), ('<<', 'TSHL'), ('>>', 'TSHR'),
         ('<=', 'TLEQ'), ('>=', 'TGEQ'), ('==', 'TEQL'), ('!=', 'TNEQ'), ('&&', 'TLAND'), ('||', 'TLOR'), ('*=', 'TMULASSIGN'), ('/=', 'TDIVASSIGN'),
         ('%=', 'TMODASSIGN'), ('+=', 'TADDASSIGN'), ('-=', 'TSUBASSIGN'), ('&=', 'TBANDASSIGN'), ('^=', 'TXORASSIGN'), ('|=', 'TBORASSIGN'), ('::', 'TCOLONCOLON'),
         ('#', 'THASH'), ('[', 'TLBRACK'), (']', 'TRBRACK'), ('(', 'TLPAREN'), (')', 'TRPAREN'), ('{', 'TLBRACE'), ('}', 'TRBRACE'), ('.', 'TPERIOD'), ('&', 'TBAND'), ('*', 'TMUL'),
         ('+', 'TADD'), ('-', 'TSUB'), ('~', 'TBNOT'), ('!', 'TLNOT'), ('/', 'TDIV'), ('%', 'TMOD'), ('<', 'TLESS'), ('>', 'TGREATER'), ('^', 'TXOR'), ('|', 'TBOR'),
         ('?', 'TQUESTION'), (':', 'TCOLON'), (';', 'TSEMICOLON'), ('=', 'TASSIGN'), (',', 'TCOMMA')]


def raw_tokens(src):
    """phase-3 tokens as scan.c delivers them: kind, spelling (identifiers, numbers, literals), white space before the token, newline tokens"""
    out = []
    for ln, text in enumerate(src.split('\n'), 1):
        i, space = 0, False
        while i < len(text):
            c = text[i]
            if c.isspace():
                space = True
                i += 1
                continue
            m = (re.match(r'(?:u8|[LuU])?"(?:\\.|[^"\\])*"', text[i:]) or re.match(r"(?:u8|[LuU])?'(?:\\.|[^'\\])*'", text[i:]))
            if m:
                out.append(('TSTRINGLIT' if m.group(0).rstrip()[-1] == '"' else 'TCHARCONST', m.group(0), space, ln))
                i += len(m.group(0)); space = False
                continue
            m = re.match(r'[A-Za-z_]\w*', text[i:])
            if m:
                out.append(('TIDENT', m.group(0), space, ln))
                i += len(m.group(0)); space = False
                continue
            m = re.match(r'\.?\d(?:[eEpP][+-]|[\w.])*', text[i:])
            if m:
                out.append(('TNUMBER', m.group(0), space, ln))
                i += len(m.group(0)); space = False
                continue
            for p, k in PUNCT:
                if text.startswith(p, i):
                    out.append((k, None, space, ln))
                    i += len(p); space = False
                    break
            else:
                raise ValueError('cannot tokenize %r' % text[i:i + 10])
        out.append(('TNEWLINE', None, space, ln))
    return out


CASES = [
    ('object', '#define A 1 + 2\nint x = A * A;'),
    ('function', '#define F(x, y) ((x) + (y))\nint v = F(1, 2) + F((3, 4), 5);'),
    ('arg-preexpansion', '#define A 1\n#define F(x) x + x\nint v = F(A);'),
    ('rescan-chain', '#define A B\n#define B C\n#define C 3\nint v = A;'),
    ('self-reference', '#define foo foo + 1\nint v = foo;'),
    ('mutual-recursion', '#define a b + 1\n#define b a + 2\nint v = a; int w = b;'),
    ('name-without-paren', '#define F(x) x\nint F; int y = F (2); int *p = &F;'),
    ('args-span-lines', '#define F(x, y) x - y\nint v = F(1,\n   2\n);\nint w = F\n(3, 4);'),
    ('nested-parens-commas', '#define F(x) [x]\nF((a, b)) F(g(1, 2)) F((((c))))'),
    ('stringify', '#define S(x) #x\nchar *s = S(a + b); char *t = S("q\\n" \'c\'); char *u = S(  x   y  );'),
    ('stringify-empty-and-ops', '#define S(x) #x\nchar *s = S(); char *t = S(a<<=b,); char *u = S(p->q ... 0x1e+5);'.replace('S(a<<=b,)', 'S(a<<=b)')),
    ('stringify-escapes', '#define S(x) #x\nchar *s = S("a\\"b"); char *t = S(\'\\\\\'); char *u = S(L"x" u8"y"); char *v = S(\'"\');'),
    ('stringify-and-use', '#define SHOW(x) #x, x\n#define N 4\nint a[] = { sizeof SHOW(N), SHOW(N + N) };'),
    ('variadic', '#define V(f, ...) f(__VA_ARGS__)\n#define W(...) #__VA_ARGS__\nV(g, 1, 2, 3); V(h, (4, 5)); char *s = W(a, b  c,d);'),
    ('variadic-standard-example', '#define debug(...) fprintf(stderr, __VA_ARGS__)\n#define showlist(...) puts(#__VA_ARGS__)\n'
     '#define report(test, ...) ((test)?puts(#test): printf(__VA_ARGS__))\ndebug("Flag");\ndebug("X = %d\\n", x);\nshowlist(The first, second, and third items.);\n'
     'report(x>y, "x is %d but y is %d", x, y);'),
    ('standard-example-3', '#define x 3\n#define f(a) f(x * (a))\n#undef x\n#define x 2\n#define g f\n#define z z[0]\n#define h g(~\n#define m(a) a(w)\n#define w 0,1\n'
     '#define t(a) a\n#define p() int\n#define q(x) x\n#define str(x) # x\nf(y+1) + f(f(z)) % t(t(g)(0) + t)(1);\ng(x+(3,4)-w) | h 5) & m\n (f)^m(m);\n'
     'p() i[q()] = { q(1) };\nchar c[2][6] = { str(hello), str() };'),
    ('undef-history', '#define A 1\nint a = A;\n#undef A\nint b = A;\n#define A 2\nint c = A;\n#undef A\n#undef A\n#undef NEVER'),
    ('benign-redefinition', '#define A 1 + 2\n#define A 1 + 2\n#define A 1  +    2\n#define F(x) x * x\n#define F(x) x * x\nint v = A F(3);'),
    ('line-pragma-null', '#line 100\nint x;\n#line 7 "foo.c"\nint y;\n#\n# \n#pragma once\nint z;\n#pragma weird ( tokens "here\n# 12 "bar.c" 2\nint w;'.replace('"here', '"here"')),
    ('nested-invocation', '#define F(x) (x+1)\nint v = F(F(F(2)));'),
    ('rescan-picks-args-from-source', '#define G F\n#define F(x) x*2\nint v = G(3); int w = G (4) + G\n(5);'),
    ('lparen-from-macro', '#define LPAREN (\n#define F(x) x\nint v = F LPAREN 1 );'),
    ('function-name-as-argument', '#define F(x) x\n#define APPLY(m) m(7)\nint v = APPLY(F);'),
    ('painted-blue', '#define f(a) a*g\n#define g(a) f(a)\nint v = f(2)(9);'),
    ('empty-arguments', '#define F(x, y) [x|y]\nF(,) F(1,) F(,2) F( , )'),
    ('expands-to-nothing', '#define E\n#define P(x)\nint E x E; P(1) P((a,b)) int y;'),
    ('keywords-after-expansion', '#define T unsigned long\n#define K(x) x\nT v; K(while) (1) K(_Bool) b; K(__inline) int f(void);'),
    ('arg-used-twice-and-not', '#define D(x, y, z) x x z\nint v = D(1 +, unused (tokens) here, 2);'),
    ('object-like-with-parens', '#define O (1)\n#define P (x) x\nint v = O + P(2);'),
    ('macro-in-own-argument', '#define F(x) x + 1\nint v = F(F(1)) + F(F);'),
    ('arg-expands-to-comma', '#define C 1, 2\n#define F(x) g(x)\n#define H(x, y) x y\nF(C) F((C))'),
    ('deferred-expansion', '#define EMPTY\n#define DEFER(id) id EMPTY\n#define A() 123\nint v = DEFER(A)(); int w = A ();'),
    ('param-shadows-macro', '#define x 5\n#define F(x) x + 1\nint v = F(2) + x;'),
    ('keyword-macro-reused', '#define T unsigned long\n#define W(x) while (x)\nT a; T b; W(1) W(2) T c;'),
    ('open-paren-in-macro', '#define ROWS(x, ...) { x }, { __VA_ARGS__ }\n#define PAIR 1, 2\n#define OPEN ROWS(\nint v[2][3] = { OPEN PAIR, 3) };'),
    ('open-paren-in-macro-id', '#define ID(x) x\n#define PAIR 1, 2\n#define OPEN ID(\nint w[] = { OPEN (PAIR)), OPEN PAIR ), OPEN ID(PAIR) ) };'),
    ('paren-from-argument-macro', '#define F(x) [x]\n#define LP (\n#define RP )\n#define C ,\nF(LP) F(RP) F(C) F(LP C RP)'),
    ('comma-macro-in-nested-call', '#define G(x, y) <x|y>\n#define F(x) G(x, 0)\n#define C 1, 2\n#define H(x) G(x)\nF((C)) H(C) F(H(C))'),
    ('stringify-of-expanding-arg', '#define S(x) #x x\n#define PAIR 1, 2\n#define OPEN S(\nOPEN PAIR ) S(PAIR)'),
    ('stringify-indirect', '#define XS(x) S(x)\n#define S(x) #x\n#define N 4\nchar *a = S(N), *b = XS(N), *c = XS(N + N);'),
    ('va-args-stringify-empty', '#define W(...) #__VA_ARGS__\n#define V(...) [__VA_ARGS__]\nchar *s = W(); V() V(,) V((,))'),
    ('parens-inside-literals', '#define F(x, y) x + y\nint v = F("(", \')\') ; char *w = F("a,b", \',\');'),
    ('macro-named-like-its-parameter', '#define x(x) x + 1\nint v = x(x(3));'),
    ('kind-change-after-undef', '#define F(x) x\n#undef F\n#define F 7\nint v = F(1);\n#undef F\n#define F(a, b) b\nint w = F(1, 2);'),
    ('twelve-macros', '\n'.join('#define M%d(a) M%d(a + %d)' % (k, k + 1, k) for k in range(11)) + '\n#define M11(a) [a]\nint v = M0(0);'),
]
REJECT = [
    ('redefine-object', '#define A 1\n#define A 2'),
    ('redefine-param-names', '#define F(x) x\n#define F(y) y'),
    ('redefine-kind', '#define F(x) x\n#define F x'),
    ('redefine-whitespace', '#define A 1 + 2\n#define A 1+2'),
    ('redefine-param-count', '#define F(x) 1\n#define F(x, y) 1'),
    ('redefine-variadic', '#define F(x) 1\n#define F(x, ...) 1'),
    ('redefine-swap', '#define sub(a, b) a - b\n#define sub(b, a) a - b'),
    ('too-few-args', '#define F(x, y) x\nint v = F(1);'),
    ('too-many-args', '#define F(x, y) x\nint v = F(1, 2, 3);'),
    ('va-args-outside', '#define F(x) __VA_ARGS__'),
    ('hash-not-param', '#define F(x) #y'),
    ('eof-in-args', '#define F(x) x\nint v = F(1, 2'),
    ('paste-unsupported', '#define C(a, b) a ## b'),
    ('if-unsupported', '#if 1\nint x;\n#endif'),
    ('include-unsupported', '#include <stdio.h>'),
    ('bad-directive', '#frobnicate\nint x;'),
    ('define-no-name', '#define 1 2'),
    ('junk-after-undef', '#define A 1\n#undef A B'),
]
CACHE = '/var/tmp/cproc-verif/pp-cache.json'


def _gcc_E(src):
    with tempfile.TemporaryDirectory() as td:
        open(td + '/a.c', 'w').write(src + '\n')
        r = subprocess.run(['gcc', '-std=c11', '-E', '-P', '-w', '-undef', '-nostdinc', td + '/a.c'], capture_output=True, text=True)
        if r.returncode:
            return None
    return '\n'.join(l for l in r.stdout.split('\n') if not l.lstrip().startswith('#pragma'))


def expected(src):
    try:
        cache = json.load(open(CACHE))
    except Exception:
        cache = {}
    key = hashlib.sha1(src.encode()).hexdigest()
    if key not in cache:
        cache[key] = _gcc_E(src)
        os.makedirs(os.path.dirname(CACHE), exist_ok=True)
        json.dump(cache, open(CACHE + '.tmp%d' % os.getpid(), 'w'))
        os.replace(CACHE + '.tmp%d' % os.getpid(), CACHE)
    return cache[key]


UNWINDSET = ['strlen.0:100', 'strcmp.0:100', 'memcmp.0:100', '__CPROVER_file_local_map_c_hash.0:100', 
             'dupstr.0:100', 'eqlit.0:82', 'arrayaddbuf.0:98', 'feed_raw.0:2', 'memcpy.0:100', 'strchr.0:100']


def _inst(name, src, expect_error, fam, exp_tokens, safety=False):
    raw = raw_tokens(src)
    assert len(raw) < 256, 'macro set too long for the raw feeder'
    body = ''.join('\trpush(%s, %s, %d, %d);\n' % (k, parselib.cstr(l) if l is not None else '0', 1 if sp else 0, ln) for k, l, sp, ln in raw)
    exp = ''.join('\t{%s, %s},\n' % (k, parselib.cstr(l) if l is not None else '0') for k, l, _ in exp_tokens) or '\t{0, 0},\n'
    files = {'raw.inc': 'static void feed_raw(void) {\n%s}\n' % body,
             'expected.inc': '#define NEXP %d\nstatic const struct { int kind; const char *lit; } EXP[] = {\n%s};\n' % (len(exp_tokens), exp)}
    n = len(raw) + len(exp_tokens)
    defs = {'EXPECT_ERROR': 1 if expect_error else 0}
    if parselib.mapcap() != 64:
        defs['MAPCAP'] = parselib.mapcap()
    if safety:
        defs['SAFE_FREE'] = None
    return Inst(name, 'h_ppx.c', defs, safety=safety, units=['token', 'map', 'util'],
                overrides=['error', 'fatal', 'xmalloc', 'xreallocarray', 'arrayadd', 'arrayaddbuf', 'arraylast'], native_units=['scan', 'expr', 'type', 'eval', 'decl', 'init', 'scope', 'targ', 'attr', 'stmt', 'utf', 'qbe', 'tree'],
                unwind=max(40, 2 * n + 20), unwindset=UNWINDSET + parselib.map_unwindset(), family=fam, timeout=600, mem_gb=12, files=files,
                witness=(n < 150),        # the two longest sets take ~3 min per query; the other twins witness the same harness

                bound={'macro set': src, 'raw tokens': len(raw), 'expected tokens (gcc -E)': len(exp_tokens)})


def instances(tier, fam='expand', safety=False):
    L = []
    for nm, src in CASES:
        e = expected(src)
        assert e is not None, 'gcc -E rejects %s' % nm
        L.append(_inst('%s.%s' % (fam, nm), src, False, fam, parselib.tokenize(e), safety))
    for nm, src in REJECT:
        L.append(_inst('%s.reject.%s' % (fam, nm), src, True, fam, [], safety))
    return L
