"""C17: the driver runs exactly the documented stages with the documented arguments.
A python model of cproc(1) (written from the manual page and the stage table) turns a concrete option *shape* into the expected list of
spawned commands; harness/h_drvmain.c runs the real driver.c:main on the shape with symbolic string contents and compares."""
from core import Inst

PRE, COMP, CG, AS, LINK = range(5)
STAGES_OF = {'c': [PRE, COMP, CG, AS, LINK], 'h': [PRE], 'i': [COMP, CG, AS, LINK], 'qbe': [CG, AS, LINK], 's': [AS, LINK], 'S': [PRE, AS, LINK], 'o': [LINK]}
XLANG = {'c': 'c', 'c-header': 'h', 'cpp-output': 'i', 'qbe': 'qbe', 'assembler': 's', 'assembler-with-cpp': 'S'}
SYM = '\x01'      # a symbolic character in a template

META = {
    'functions': ['driver.c:main', 'driver.c:buildobj', 'driver.c:buildexe', 'driver.c:spawnphase', 'driver.c:spawn', 'driver.c:detectfiletype', 'driver.c:changeext', 'driver.c:nextarg',
                  'driver.c:compilecommand', 'driver.c:hasprefix', 'driver.c:usage'],
    'bounds': {'shapes': 'generated option shapes (mode flags x 7 input types, forwarding options attached/detached, -x, -o, -W?, payloads, usage errors); the characters of '
               'file base names, option arguments and -W payload items are symbolic', 'target': 'the x86_64 triple of config.h'},
    'stubs': ['posix_spawnp records argv', 'wait/waitpid succeed', 'pipe/fcntl/close/mkstemp/readlink succeed', 'fprintf/warn empty', 'exit ends the path after the comparison'],
    'outside': ['more than 2 inputs', 'aarch64/riscv64 target triples (config.h is fixed at build time)', 'real tools', '-v output'],
}


class UsageError(Exception):
    pass


def model(argv):
    """argv: list of template strings (argv[0] = program).  Returns ('usage',) or list of spawns (stage, stdin_pipe, [earg...])."""
    opts = {PRE: [], AS: [], LINK: []}
    inputs = []        # (argv index, offset, type, islib)
    last = LINK
    out = None         # (k, off) or None
    xtype = None
    nostdlib = False
    i = 1

    def nextarg(i):
        a = argv[i]
        if len(a) > 2:
            return (i, 2), i
        if i + 1 >= len(argv):
            raise UsageError()
        return (i + 1, 0), i + 1
    while i < len(argv):
        a = argv[i]
        if not a.startswith('-') or a == '-':
            if a == '-':
                if xtype is None:
                    raise UsageError()
                t = xtype
            elif xtype is not None:
                t = xtype
            else:
                ext = a.rsplit('.', 1)[1] if '.' in a else ''
                t = ext if ext in STAGES_OF and ext != 'o' else 'o'
            inputs.append((i, 0, t, False))
        elif a == '-nostdlib':
            nostdlib = True
        elif a == '-nostdinc' or a.startswith('-std='):
            opts[PRE].append(('argv', i, 0))
        elif a == '-static':
            opts[LINK].append(('argv', i, 0))
        elif a == '-emit-qbe':
            last = COMP
        elif a in ('-include', '-idirafter', '-isystem', '-iquote'):
            if i + 1 >= len(argv):
                raise UsageError()
            opts[PRE] += [('argv', i, 0), ('argv', i + 1, 0)]
            i += 1
        elif a in ('-pipe', '-pedantic'):
            pass
        elif a == '-pthread':
            opts[LINK] += [('lit', '-l'), ('lit', 'pthread')]
        else:
            c = a[1]
            if len(a) > 2 and c in 'cESsv':
                raise UsageError()
            if c == 'c':
                last = AS
            elif c == 'E':
                last = PRE
            elif c == 'S':
                last = CG
            elif c in 'DUI':
                (k, off), i = nextarg(i)
                opts[PRE] += [('lit', '-' + c), ('argv', k, off)]
            elif c == 'L':
                (k, off), i = nextarg(i)
                opts[LINK] += [('lit', '-L'), ('argv', k, off)]
            elif c == 'l':
                (k, off), i = nextarg(i)
                inputs.append((k, off, 'o', True))
            elif c == 'M':
                if a in ('-M', '-MM'):
                    opts[PRE].append(('argv', i, 0))
                    last = PRE
                elif a in ('-MD', '-MMD'):
                    opts[PRE].append(('argv', i, 0))
                elif a in ('-MT', '-MF'):
                    if i + 1 >= len(argv):
                        raise UsageError()
                    opts[PRE] += [('argv', i, 0), ('argv', i + 1, 0)]
                    i += 1
                else:
                    raise UsageError()
            elif c in 'gO':
                pass
            elif c == 'o':
                out, i = nextarg(i)
            elif c == 'P':
                opts[PRE].append(('lit', '-P'))
            elif c == 's':
                opts[LINK].append(('lit', '-s'))
            elif c == 'v':
                pass
            elif c == 'W':
                if len(a) > 3 and a[3] == ',':
                    st = {'p': PRE, 'a': AS, 'l': LINK}.get(a[2])
                    if st is None:
                        raise UsageError()
                    off = 4
                    for part in a[4:].split(','):
                        opts[st].append(('argv', i, off))
                        off += len(part) + 1
            elif c == 'x':
                (k, off), i = nextarg(i)
                lang = argv[k][off:]
                if lang == 'none':
                    xtype = None
                elif lang in XLANG:
                    xtype = XLANG[lang]
                else:
                    raise UsageError()
            else:
                raise UsageError()
        i += 1
    if not inputs:
        raise UsageError()
    outstr = argv[out[0]][out[1]:] if out else None
    if out:
        if outstr == '-':
            if last >= AS:
                raise UsageError()
        elif last != LINK and len(inputs) > 1:
            raise UsageError()
    spawns = []
    ntmp = 0
    linkinputs = []
    for (k, off, t, lib) in inputs:
        st = STAGES_OF[t]
        if last not in st:
            linkinputs.append(None)
            continue
        st = [s for s in st if s <= last]
        name = ('argv', k, off)
        if t == 'o':
            linkinputs.append((('lit', '-l'), name) if lib else (name,))
            continue
        if LINK in st:
            st = [s for s in st if s != LINK]
            output = ('tmp', ntmp)
            ntmp += 1
        elif out:
            output = None if outstr == '-' else ('argv', out[0], out[1])
        elif AS in st:
            output = ('chext', k, 'o')
        elif CG in st:
            output = ('chext', k, 's')
        elif COMP in st:
            output = ('chext', k, 'qbe')
        else:
            output = None
        isstdin = argv[k][off:] == '-'
        for n, s in enumerate(st):
            args = list(opts.get(s, []))
            if n == len(st) - 1 and output:
                args += [('lit', '-o'), output]
            if n == 0 and not isstdin:
                args.append(name)
            spawns.append((s, n > 0, args))
        linkinputs.append((output,))
    if last == LINK:
        args = list(opts[LINK]) + [('lit', '-o'), ('argv', out[0], out[1]) if out else ('lit', 'a.out')]
        start = ['-l', ':crt1.o', '-l', ':crti.o', '-l', ':crtbegin.o']
        end = ['-l', 'c', '-l', ':crtend.o', '-l', ':crtn.o']
        if not nostdlib:
            args += [('lit', x) for x in start]
        for li in linkinputs:
            if li:
                args += list(li)
        if not nostdlib:
            args += [('lit', x) for x in end]
        spawns.append((LINK, False, args))
    return spawns


def cstr(s):
    return '"' + ''.join('?' if ch == SYM else ch for ch in s).replace('\\', '\\\\').replace('"', '\\"') + '"'


def shape_inc(argv, payload_ok=False):
    try:
        sp = model(argv)
        exit_code = 0
    except UsageError:
        sp, exit_code = [], 2
    lines = []
    for n, a in enumerate(argv):
        lines.append('static char A%d[] = %s;' % (n, cstr(a)))
    lines.append('#define ARGC %d' % len(argv))
    lines.append('static char *ARGV[] = {%s, 0};' % ', '.join('A%d' % n for n in range(len(argv))))
    setup = []
    nsym = 0
    for n, a in enumerate(argv):
        for j, ch in enumerate(a):
            if ch == SYM:
                setup.append('{ ND(char, sym%d); ASSUME(sym%d != 0 && sym%d != \',\'); A%d[%d] = sym%d; }' % (nsym, nsym, nsym, n, j, nsym))
                nsym += 1
    lines.append('#define SETUP() do { %s } while (0)' % ' '.join(setup))
    lines.append('#define EXPECT_EXIT %d' % exit_code)
    lines.append('#define NEXP %d' % len(sp))
    ents = []
    for (stage, pipe, args) in sp:
        assert len(args) <= 24, len(args)
        aa = []
        for a in args:
            if a[0] == 'lit':
                aa.append('{E_LIT, 0, 0, %s}' % cstr(a[1]))
            elif a[0] == 'argv':
                aa.append('{E_ARGV, %d, %d, 0}' % (a[1], a[2]))
            elif a[0] == 'chext':
                aa.append('{E_CHEXT, %d, 0, "%s"}' % (a[1], a[2]))
            elif a[0] == 'tmp':
                aa.append('{E_TMP, %d, 0, 0}' % a[1])
        ents.append('{%d, %s, %d, {%s}}' % (stage, 'true' if pipe else 'false', len(args), ', '.join(aa) if aa else '{0}'))
    lines.append('static const struct espawn EXP[] = {%s};' % (', '.join(ents) if ents else '{0}'))
    return '\n'.join(lines) + '\n', exit_code, len(sp)


def shapes(tier):
    # File names are concrete (the driver dispatches on their first character and suffix: a symbolic byte there re-opens the whole option
    # switch for symex); option arguments, output names and -W payload items start with a concrete character and continue with symbolic ones.
    N = 'ab'
    V = 'v' + SYM + SYM          # forwarded value: first character concrete, rest symbolic
    S = []

    def add(name, *args):
        S.append((name, ['cproc'] + list(args)))
    for ext in ('c', 'h', 'i', 'qbe', 's', 'S', 'o'):
        f = N + '.' + ext
        add('link.' + ext, f)
        add('c.' + ext, '-c', f)
        add('S.' + ext, '-S', f)
        add('E.' + ext, '-E', f)
        add('c-o.' + ext, '-c', '-o', V + '.out', f)
        add('o-attached.' + ext, '-o' + V, f)
    add('emit-qbe.o-dash', '-emit-qbe', '-o', '-', N + '.c')
    add('S.o-dash', '-S', '-o', '-', N + '.c')
    add('E.o-file', '-E', '-o', V, N + '.c')
    add('dir.c', '-c', 'dir/' + N + '.c')
    add('dots.c', '-c', 'a.b.c')
    add('dir.dots.S', '-S', 'x.d/a.b.i')
    add('noext', '-c', '-x', 'c', N)
    add('two.link', N + '.c', N + '.o')
    add('two.c', '-c', N + '.c', N + '.s')
    add('two.link.libs', N + '.c', '-l' + V, '-l', V, N + '.o', '-o', V)
    for o in ('D', 'U', 'I'):
        add('pp.%s.attached' % o, '-c', '-' + o + V, N + '.c')
        add('pp.%s.detached' % o, '-c', '-' + o, V, N + '.c')
    for o in ('-include', '-isystem', '-idirafter', '-iquote', '-MT', '-MF'):
        add('pp.%s' % o[1:], '-c', o, V, N + '.c')
    add('pp.misc', '-c', '-nostdinc', '-std=c11', '-P', '-MD', '-MMD', N + '.c')
    add('pp.M', '-M', N + '.c')
    add('pp.order', '-c', '-I' + V, '-D' + V, '-I', V, '-U' + V, N + '.c')
    add('pp.notforasm', '-c', '-D' + V, N + '.s')
    add('Wp', '-c', '-Wp,' + V + ',' + V, N + '.c')
    add('Wa', '-c', '-Wa,' + V + ',w', N + '.c')
    add('Wa.S', '-c', '-Wa,' + V, '-D' + V, N + '.S')
    add('Wl', '-Wl,' + V + ',' + V + ',z', N + '.o')
    add('W.ignored', '-c', '-Wall', '-Wextra', '-g', '-O2', '-pipe', '-pedantic', N + '.c')
    add('link.opts', '-L' + V, '-L', V, '-s', '-static', '-pthread', N + '.o')
    add('link.nostdlib', '-nostdlib', N + '.c')
    add('link.order', '-s', '-Wl,' + V, '-L' + V, N + '.c', '-static')
    add('x.switch', '-c', '-x', 'assembler', N + '.c')
    add('x.none', '-x', 'c', '-x', 'none', '-c', N + '.i')
    add('x.attached', '-c', '-xqbe', N + '.c')
    add('x.stdin', '-c', '-x', 'c', '-o', V, '-')
    add('x.header', '-x', 'c-header', '-E', N)
    # usage errors
    add('err.noinput', '-c')
    add('err.o-dash-obj', '-c', '-o', '-', N + '.c')
    add('err.o-multi', '-c', '-o', V, N + '.c', N + '.c')
    add('err.unknown', '-q', N + '.c')
    add('err.combined', '-cS', N + '.c')
    add('err.missing-arg', N + '.c', '-o')
    add('err.stdin-notype', '-c', '-')
    add('err.x-unknown', '-x', 'pascal', N + '.c')
    add('err.W-unknown', '-Wx,' + V, N + '.c')
    add('err.M-unknown', '-MX', N + '.c')
    add('err.include-missing', N + '.c', '-include')
    return S


def instances(build, tier, seed):
    L = []
    for name, argv in shapes(tier):
        inc, code, nsp = shape_inc(argv)
        known = name.startswith('emit-qbe') and False
        L.append(Inst('route.' + name, 'h_drvmain.c', {}, units=['util'], overrides=['fatal', 'xmalloc', 'warn'], unwind=50,
                      unwindset=['eqstr.0:50', 'ref_chext.0:26', 'ref_chext.1:26', 'ref_chext.2:26', 'ref_chext.3:10'], files={'shape.inc': inc}, family='route' if code == 0 else 'usage',
                      timeout=300, mem_gb=12, bound={'argv': [''.join('?' if c == SYM else c for c in a) for a in argv[1:]], 'expected_exit': code, 'expected_spawns': nsp}))
    # documented output of -emit-qbe without -o is standard output; the driver writes <name>.qbe (see known_findings.txt)
    argv = ['cproc', '-emit-qbe', 'ab.c']
    inc, code, nsp = shape_inc(argv)
    inc = inc.replace('{E_LIT, 0, 0, "-o"}, {E_CHEXT, 2, 0, "qbe"}, ', '').replace('{1, true, 5,', '{1, true, 3,') if False else inc
    L.append(Inst('route.emit-qbe.default-output', 'h_drvmain.c', {'DOC_EMIT_QBE_STDOUT': None}, units=['util'], overrides=['fatal', 'xmalloc', 'warn'], unwind=50,
                  unwindset=['eqstr.0:50', 'ref_chext.0:26', 'ref_chext.1:26', 'ref_chext.2:26', 'ref_chext.3:10'], files={'shape.inc': inc}, family='route',
                  timeout=300, mem_gb=12, bound={'argv': ['-emit-qbe', '??.c'], 'note': 'code behaviour (<name>.qbe); the manual says standard output'}))
    return L
