"""In-memory translation validation (harness/h_tv.c): generator of tokens.inc / ref.inc for one C function."""
import re
from core import Inst
import parselib

CLS = {'char': 'w', 'signed char': 'w', 'unsigned char': 'w', 'short': 'w', 'unsigned short': 'w', 'int': 'w', 'unsigned': 'w', '_Bool': 'w',
       'long': 'l', 'unsigned long': 'l', 'long long': 'l', 'unsigned long long': 'l', 'size_t': 'l', 'float': 's', 'double': 'd'}
UNITS = ['decl', 'stmt', 'expr', 'eval', 'init', 'type', 'scope', 'attr', 'map', 'util', 'targ', 'tree', 'utf', 'token']
OVERRIDES = ['error', 'fatal', 'xmalloc', 'xreallocarray']


def _conv(t, v):
    """C expression converting the IL value v (unsigned long long, class CLS[t]) to the callee's parameter type t"""
    c = CLS.get(t, 'l')
    if t.startswith('struct ') or t.startswith('union '):
        return '*(%s *)(uintptr_t)%s' % (t, v)          # aggregates are passed as the address of a copy
    if t.endswith('*'):
        return '(%s)(uintptr_t)%s' % (t, v)
    if c == 'w':
        return '(%s)(unsigned)%s' % (t, v)
    if c == 'l':
        return '(%s)%s' % (t, v)
    return 'il_f32(%s)' % v if c == 's' else 'il_f64(%s)' % v


def _bits(t, v):
    """trace representation of a callee parameter value"""
    if t.endswith('*') or t.startswith('struct ') or t.startswith('union '):
        return None          # addresses differ between the two executions: not recorded (the pointed-to memory is compared at the end)
    c = CLS[t]
    if c in 'wl':
        return '(unsigned long long)(long long)%s' % v if not (t.startswith('unsigned') or t in ('_Bool', 'size_t')) else '(unsigned long long)%s' % v
    return 'il_b64((double)%s)' % v


def callee_code(callees):
    """callees: list of dicts {name, ret, params:[ctype], extra:[ctype] (variadic arguments expected at the single call site, already promoted),
    body: optional C statements run by the callee (may use a0..aN)}.  Returns (prelude, dispatch) for ref_inc."""
    pre, disp = [], []
    for cid, ce in enumerate(callees, 1):
        ps, ex = ce['params'], ce.get('extra')
        names = ['a%d' % i for i in range(len(ps) + len(ex or []))]
        sig = ', '.join('%s %s' % (t, n) for t, n in zip(ps, names)) or 'void'
        if ex is not None:
            sig += ', ...'
        rec = [b for b in (_bits(t, n) for t, n in zip(ps + (ex or []), names)) if b]
        rec4 = (rec + ['0', '0', '0', '0'])[:4]
        ret = ce['ret']
        body = ''
        if ex is not None:
            body += 'va_list ap_; va_start(ap_, a%d); ' % (len(ps) - 1)
            for t, n in zip(ex, names[len(ps):]):
                body += '%s %s = va_arg(ap_, %s); ' % (t, n, t)
            body += 'va_end(ap_); '
        body += 'unsigned long long rv_ = tv_rec(%d, %d, %s); (void)rv_; ' % (cid, len(rec), ', '.join(rec4))
        body += ce.get('body', '')
        if ret.startswith('struct ') or ret.startswith('union '):
            body += ' %s r_; %s return r_;' % (ret, ce['ret_init'])          # ret_init: statements filling r_ from rv_ and the parameters
        elif ret != 'void':
            body += ' return (%s)%s;' % (ret, '(int)rv_' if CLS.get(ret, 'l') in 'sd' else 'rv_')
        pre.append('%s %s(%s) { %s }' % (ret, ce['name'], sig, body))
        allp = ps + (ex or [])
        conds = ['A.n == %d' % len(allp), 'A.vararg_at == %d' % (len(ps) if ex is not None else -1)]
        conds += ["A.cls[%d] == '%s' && %s" % (i, CLS.get(t, 'l'), ('A.ty[%d] != 0' if (t.startswith('struct ') or t.startswith('union ')) else 'A.ty[%d] == 0') % i) for i, t in enumerate(allp)]
        conds.append("in->class == %s" % ("'%s'" % CLS.get(ret, 'l') if ret != 'void' else '0'))
        call = '%s(%s)' % (ce['name'], ', '.join(_conv(t, 'A.val[%d]' % i) for i, t in enumerate(allp)))
        if ret.startswith('struct ') or ret.startswith('union '):
            conds.append('in->arg[1] != 0')
            r = 'static %s buf_%d[%d]; static int nb_%d; if (nb_%d >= %d) PATH_END(); buf_%d[nb_%d] = %s; return (unsigned long long)(uintptr_t)&buf_%d[nb_%d++];' % (ret, cid, 4, cid, cid, 4, cid, cid, call, cid, cid)
        elif ret == 'void':
            r = '%s; return 0;' % call
        elif CLS.get(ret, 'l') == 's':
            r = 'return il_b32(%s);' % call
        elif CLS.get(ret, 'l') == 'd':
            r = 'return il_b64(%s);' % call
        else:
            r = 'return (unsigned long long)%s;' % call
        disp.append('if (tv_callee_is(in, "%s", (void *)%s)) { struct tv_args A = tv_getargs(); '
                    'CHECK(%s, "a call passes exactly the callee\'s parameters, each in the class of its (converted or promoted) type"); if (!(%s)) PATH_END(); %s }'
                    % (ce['name'], ce['name'], ' && '.join(conds), ' && '.join(conds[:2]), r))
    return '\n'.join(pre) + '\n', ' '.join(disp)


def ref_inc(name, src, params, ret, pre='', callees='', prelude=''):
    """params: list of (ctype, name) for scalars or (elemtype + ' *', name, nelem) for pointers to nelem symbolic elements.
    src: full text of the function definition (and of helper definitions it needs); the function NAME is renamed ref_NAME for CBMC."""
    refsrc = re.sub(r'\b%s\s*\(' % re.escape(name), 'ref_%s(' % name, src)
    L = ['#define TV_NAME "%s"' % name, prelude, refsrc, 'static bool tv_done;']
    L.append('static unsigned long long tv_call(struct inst *in) { %s il_unmodelled++; return 0; }' % callees)
    body = []
    args_ref, setp, post = [], [], []
    for k, p in enumerate(params):
        if len(p) == 4:          # (ctype, name, 'FN', harness function): a function pointer argument
            t, n, _, fn = p
            args_ref.append(fn)
            setp.append("il_def(&pv[%d], 'l', (unsigned long long)(uintptr_t)%s);" % (k, fn))
            continue
        if len(p) == 2:
            t, n = p
            body.append('ND(%s, in_%s);' % (t, n))
            args_ref.append('in_%s' % n)
            c = CLS[t]
            if c in 'wl':
                setp.append("il_def(&pv[%d], '%s', (unsigned long long)(%s)in_%s);" % (k, c, 'long long' if not t.startswith('unsigned') and t not in ('_Bool', 'size_t') else 'unsigned long long', n))
            elif c == 's':
                setp.append("il_def(&pv[%d], 's', il_b32(in_%s));" % (k, n))
            else:
                setp.append("il_def(&pv[%d], 'd', il_b64(in_%s));" % (k, n))
        else:
            t, n, ne = p
            et = t.rstrip('*').strip()
            if et.startswith('struct') or et.startswith('union'):
                # aggregates: symbolic bytes (ND() handles scalars only), viewed through a pointer of the aggregate type
                body.append('static _Alignas(16) unsigned char rb_%s[%d * sizeof(%s)], ib_%s[%d * sizeof(%s)]; %s *r_%s = (%s *)rb_%s, *i_%s = (%s *)ib_%s; '
                            '{ ND_ARR(unsigned char, g_%s, %d * sizeof(%s)); for (unsigned q_ = 0; q_ < %d * sizeof(%s); q_++) { rb_%s[q_] = g_%s[q_]; ib_%s[q_] = g_%s[q_]; } }'
                            % (n, ne, et, n, ne, et, et, n, et, n, n, et, n, n, ne, et, ne, et, n, n, n, n))
                post.append('CHECK(memcmp(rb_%s, ib_%s, sizeof rb_%s) == 0, "memory reachable through pointer argument %s ends up as the C abstract machine prescribes");' % (n, n, n, n))
                args_ref.append('r_%s' % n)
                setp.append("il_def(&pv[%d], 'l', (unsigned long long)(uintptr_t)ib_%s);" % (k, n))
                continue
            body.append('static %s r_%s[%d], i_%s[%d]; { ND_ARR(%s, g_%s, %d); for (int q_ = 0; q_ < %d; q_++) { r_%s[q_] = g_%s[q_]; i_%s[q_] = g_%s[q_]; } }' % (et, n, ne, n, ne, et, n, ne, ne, n, n, n, n))
            args_ref.append('r_%s' % n)
            setp.append("il_def(&pv[%d], 'l', (unsigned long long)(uintptr_t)i_%s);" % (k, n))
            post.append('CHECK(memcmp(r_%s, i_%s, sizeof r_%s) == 0, "memory reachable through pointer argument %s ends up as the C abstract machine prescribes");' % (n, n, n, n))
    L.append('static void tv_run(struct func *f) {')
    L += ['\t' + b for b in body]
    if pre:
        L.append('\tASSUME(%s);' % pre)
    L.append('\tstruct value *pv = f->paramtemps; il_allow_redef = true;')
    L += ['\t' + x for x in setp]
    L.append('\t{ ND_ARR(unsigned long long, rv, TV_MAXCALL); for (int q_ = 0; q_ < TV_MAXCALL; q_++) tv_retv[q_] = rv[q_]; }')
    L.append('\ttv_side = 1; il_run(f->start, 0, 0); tv_side = 0;')
    if ret != 'void':
        L.append('\t%s want = ref_%s(%s);' % (ret, name, ', '.join(args_ref)))
    else:
        L.append('\tref_%s(%s);' % (name, ', '.join(args_ref)))
    L.append('\tWITNESS_POINT();')
    L.append('\tCHECK(il_cfg_errors(f->start) == 0, "control flow is well-formed on every path, executed or not: jumps name blocks of the function, the last block is terminated, phi sources are real predecessors");')
    L.append('\tCHECK(IL_WELLFORMED(), "emitted IL is well-formed: classes, definitions before use");')
    L.append('\tCHECK(il_endkind == JUMP_RET, "the function returns");')
    if ret != 'void':
        c = CLS[ret]
        if c == 'w':
            L.append("\tCHECK((%s)(unsigned)il_val(il_ret, 'w') == want, \"the compiled function returns the value the C abstract machine prescribes\");" % ret)
        elif c == 'l':
            L.append("\tCHECK((%s)il_val(il_ret, 'l') == want, \"the compiled function returns the value the C abstract machine prescribes\");" % ret)
        elif c == 's':
            L.append("\tCHECK(il_f32(il_val(il_ret, 's')) == want || (want != want), \"the compiled function returns the value the C abstract machine prescribes\");")
        else:
            L.append("\tCHECK(il_f64(il_val(il_ret, 'd')) == want || (want != want), \"the compiled function returns the value the C abstract machine prescribes\");")
    L += ['\t' + x for x in post]
    L.append('\tCHECK(tv_nc[0] <= TV_MAXCALL && tv_traces_equal(), "the same calls are made, in the same order, with the same (converted) argument values");')
    L.append('\ttv_done = true;')
    L.append('}')
    return '\n'.join(L) + '\n'


def tv_inst(iname, fname, src, params, ret, fam, pre='', callees='', prelude='', unwind=40, timeout=600, toksrc=None, depth=None, optional=False, backends=('sat',)):
    toks = parselib.tokens_inc(toksrc or src).replace("assert len", "assert len")
    return Inst(iname, 'h_tv.c', ({'MAPCAP': parselib.mapcap()} if parselib.mapcap() != 64 else {}), units=UNITS, overrides=OVERRIDES, native_units=['scan', 'pp'], unwind=unwind, family=fam, timeout=timeout, mem_gb=16, optional=optional, backends=list(backends),
                unwindset=parselib.map_unwindset() + ['strlen.0:40', 'strcmp.0:40', 'memcmp.0:70', 'scopeinit.0:16', '__CPROVER_file_local_map_c_hash.0:40', 'il_is_stop.0:14', 'il_run.0:130', 'il_run.1:70', 'il_cfg_has.0:50', 'il_cfg_errors.0:4', 'il_cfg_errors.1:50',
                           'dupstr.0:40', 'delfunc.0:130', 'delfunc.1:70', 'real_emitfunc.0:12', 'real_emitfunc.1:130', 'real_emitfunc.2:70', 'emitinst.0:10', 'strtoull.0:26', 'strpbrk.0:10', 'strpbrk.1:42', 'strtod.0:26', 'strtod.1:6', 'strtod.2:42'],
                files={'tokens.inc': toks.replace('static void checks(void) {\n}\n', ''), 'ref.inc': ref_inc(fname, src, params, ret, pre, callees, prelude)},
                bound={'function': src.strip()[:160], 'inputs': 'symbolic', 'precondition': pre})
