"""C04 at parser level: constant expressions with SYMBOLIC integer constants ($k = an unsigned long long literal whose value is a solver variable)
go through the real expression parser, eval() and emitdata in the contexts that require folding (static initializer, array bound, member array bound, offsetof, static_assert; enumerators gave no verdict: the enum's type selection
branches on the symbolic value);
the emitted value must equal the same expression evaluated by the checker's own C semantics on the same values."""
import re
import parselib

CASES = [
    # (name, declarations with `x` as the observed object (the last definition), type of x, C expression for the expected value of x)
    ('init-arith', 'long x = (long)$1 * 3 - (int)$2;', 'long', '(long)$1 * 3 - (int)$2'),
    ('init-div', 'int x = (signed char)$1 / ((signed char)$2 | 1) + (unsigned char)$1 / ((unsigned char)$2 | 1) * 1000;', 'int', '(signed char)$1 / ((signed char)$2 | 1) + (unsigned char)$1 / ((unsigned char)$2 | 1) * 1000'),
    ('init-mod', 'int x = (signed char)$1 % ((signed char)$2 | 1) + (unsigned char)$1 % ((unsigned char)$2 | 1) * 1000;', 'int', '(signed char)$1 % ((signed char)$2 | 1) + (unsigned char)$1 % ((unsigned char)$2 | 1) * 1000'),
    ('init-shifts', 'long x = ((unsigned char)$1 << 3) + ((int)$1 >> ($2 & 31)) + ($1 >> ($2 & 63));', 'long', '((unsigned char)$1 << 3) + ((int)$1 >> ($2 & 31)) + ($1 >> ($2 & 63))'),
    ('init-logic', '_Bool x = $1 && !$2 || (int)$1 == 5;', '_Bool', '$1 && !$2 || (int)$1 == 5'),
    ('init-cond-true', 'long x = 1 ? (int)$2 : (long)$1 - 1;', 'long', '1 ? (int)$2 : (long)$1 - 1'),
    ('init-cond-false', 'long x = 0 ? (int)$2 : (long)$1 - 1;', 'long', '0 ? (int)$2 : (long)$1 - 1'),
    ('init-cond-unsigned', 'long x = (1 ? (int)$2 : (unsigned)$2) < 0;', 'long', '(1 ? (int)$2 : (unsigned)$2) < 0'),
    ('init-compare-promoted', 'int x = (unsigned char)$1 + (signed char)$2 < (unsigned short)$1;', 'int', '(unsigned char)$1 + (signed char)$2 < (unsigned short)$1'),
    ('init-neg-unsigned', 'long x = -(unsigned)$1;', 'long', '-(unsigned)$1'),
    ('init-not', 'unsigned short x = ~$1 >> 60;', 'unsigned short', '~$1 >> 60'),
    ('init-char-mix', 'int x = (int)(unsigned char)$1 - ((char)$2 & 0x7f) * 2;', 'int', '(int)(unsigned char)$1 - ((char)$2 & 0x7f) * 2'),
    ('init-sign-tests', 'long x = ((long)$1 < 0) + ((unsigned long)$1 > 9223372036854775807) * 2 + ((int)$1 < (unsigned)$2) * 4;', 'long',
     '((long)$1 < 0) + ((unsigned long)$1 > 9223372036854775807) * 2 + ((int)$1 < (unsigned)$2) * 4'),
    ('init-small-mul', 'unsigned x = (unsigned char)$1 * (unsigned char)$2 + (signed char)$1 * 5;', 'unsigned', '(unsigned char)$1 * (unsigned char)$2 + (signed char)$1 * 5'),
    ('init-bool-cast', 'int x = (_Bool)$1 + (_Bool)(unsigned char)$2 * 2 + !!($1 >> 63) * 4;', 'int', '(_Bool)$1 + (_Bool)(unsigned char)$2 * 2 + !!($1 >> 63) * 4'),
    ('init-comma-free-paren', 'short x = (((short)$1)) ^ ((short)$2 | 0x10);', 'short', '(((short)$1)) ^ ((short)$2 | 0x10)'),
    ('init-sizeof', 'unsigned long x = sizeof(char[((unsigned char)$1 & 15) + 1]) * 2 + sizeof($1 + 1) + _Alignof(short);', 'unsigned long', '(((unsigned char)$1 & 15) + 1) * 2 + 8 + 2'),
    ('array-bound', 'extern char a[((unsigned char)$1 & 15) + 1];\nunsigned long x = sizeof a;', 'unsigned long', '((unsigned char)$1 & 15) + 1'),
    ('array-bound-2d', 'extern int a[($1 & 3) + 1][($2 & 1) + 2];\nunsigned long x = sizeof a + sizeof a[0] * 100;', 'unsigned long', '(($1 & 3) + 1) * (($2 & 1) + 2) * 4 + (($2 & 1) + 2) * 400'),
    ('static-assert-context', 'static_assert((($1 & 7) + 1) * 2 == (($1 & 7) << 1) + 2);\nint x = 3;', 'int', '3'),
    ('member-array-bound', 'struct s { char c; short m[($1 & 7) + 1]; };\nunsigned long x = sizeof(struct s) + _Alignof(struct s) * 1000 + __builtin_offsetof(struct s, m[($2 & 3)]) * 1000000;', 'unsigned long',
     '(2 + (($1 & 7) + 1) * 2) + 2 * 1000 + (2 + ($2 & 3) * 2) * 1000000'),
]
SIZE = {'_Bool': 1, 'short': 2, 'unsigned short': 2, 'int': 4, 'unsigned': 4, 'long': 8, 'unsigned long': 8}


def instances(tier, fam='foldctx'):
    L = []
    for nm, decl, ty, want in CASES:
        n = max(int(m) for m in re.findall(r'\$(\d+)', decl))
        src = re.sub(r'\$(\d+)', lambda m: '%dULL' % (1000 + int(m.group(1))), decl)
        wexpr = re.sub(r'\$(\d+)', lambda m: 'symval[%d]' % (int(m.group(1)) - 1), want)
        size = SIZE[ty]
        checks = '\tCHECK(!bad && closed == ndefs, "every emitted item is a well-formed data item and every definition is closed");\n'
        checks += '\tCHECK(ipos == %d, "the definition has exactly the size of the object");\n' % size
        checks += '\t%s want = (%s)(%s);\n\tunsigned long long got = 0; for (int i = 0; i < %d; i++) got |= (unsigned long long)img[i] << (8 * i);\n' % (ty, ty, wexpr, size)
        checks += '\tCHECK((%s)got == want, "the constant expression folds to the value C gives it (context: %s)");\n' % (ty, nm)
        i = parselib.parse_inst('%s.%s' % (fam, nm), src, False, fam, checks=checks, unwind=70, timeout=300 if tier == 'quick' else 1800,
                                extra_defs={'DECODE_DATA': None, 'SYM_NUMBERS': n}, maxtok='fit')
        i.unwindset += ['checks.0:10', 'streq.0:22', 'put.0:10', 'printf.0:60', 'main.0:10', 'strtoull.0:26']
        i.backends = ['sat', 'z3s']
        i.bound = {'declaration': decl, 'constants': 'symbolic 64-bit values', 'expected': want}
        L.append(i)
    return L
