"""C20: output is a pure function of input and target.  Encodable part: (1) every equality "output == oracle(inputs)" proved by the functional
families holds for all allocator contents, because CBMC's malloc returns objects with nondeterministic contents and gives no meaning to address
order; a slice of those instances is re-run here; (2) twin-run of the constructors with explicitly garbage-filled allocations; (3) side
evidence (not solver-decided): the built binary imports no environment-dependent libc functions."""
import subprocess
from core import Inst
import c07, c13, exprlib

META = {
    'functions': ['type.c:mktype/mkpointertype/mkarraytype', 'decl.c:mkdecl', 'expr.c:mkexpr/mkconstexpr', 'qbe.c:emitdata (image)', 'scan.c:scan (token)', 'qbe.c:funcexpr (lowering)'],
    'bounds': {'twin': 'symbolic constructor arguments, symbolic heap garbage (first 160 bytes of every block)', 'reuse': 'slices of C07/C13/C01 instances'},
    'stubs': ['xmalloc fills blocks with symbolic garbage'],
    'outside': ['locale/TZ/cwd/ASLR perturbation of the real process', 'stdin vs file, -o vs stdout (libc I/O)', 'self-built vs reference-built binary (C02)', 'hash-table iteration order (only mapfree iterates)'],
}


def instances(build, tier, seed):
    L = [Inst('pure.constructors', 'h_pure.c', {}, units=['type', 'decl', 'expr', 'util'], overrides=['fatal', 'xmalloc', 'error'], unwind=8,
              unwindset=['xmalloc.0:162', 'memcmp.0:100', 'memset.0:100'], native_units=['tree', 'token', 'map', 'eval', 'init', 'scope', 'targ', 'attr', 'stmt', 'utf', 'scan', 'pp', 'qbe'],
              family='pure.twin', timeout=300, bound={'arguments': 'symbolic', 'heap garbage': 'symbolic'})]
    L += [i for i in c07.data_instances('quick', fam='pure.data') if len(i.bound['initializers']) == 1]
    L += [i for i in c13.scan_instances('quick', fam='pure.scan') if 'SECOND' not in i.defs and i.defs['FIRST'] % 8 == 1]
    L += [i for i in exprlib.expr_instances('quick', seed, 'ONLY_RT', 'pure.select', ops=('add', 'lt', 'shr')) if not i.optional][::3]
    L += exprlib.ptrcmp_instances('quick', seed, 'ONLY_RT', 'pure.select')
    # side evidence, recorded in META (not a solver obligation)
    try:
        out = subprocess.run(['nm', '-u', build.nat + '/cproc-qbe'], capture_output=True, text=True).stdout
        bad = [w for w in ('getenv', 'setlocale', 'time', 'rand', 'srand', 'getpid', 'clock', 'gettimeofday', 'localtime') if any(l.split()[-1].split('@')[0] == w for l in out.split('\\n') if l.split())]
        META['bounds']['imports'] = 'cproc-qbe imports none of getenv/setlocale/time/rand/getpid/clock' if not bad else 'cproc-qbe imports: %s' % bad
    except Exception as e:
        META['bounds']['imports'] = 'not checked: %s' % e
    return L
