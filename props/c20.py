"""C20: output is a pure function of input and target.  Encodable part: (1) every equality "output == oracle(inputs)" proved by the functional
families holds for all allocator contents, because CBMC's malloc returns objects with nondeterministic contents and gives no meaning to address
order; a slice of those instances is re-run here; (2) twin-run of the constructors with explicitly garbage-filled allocations; (3) side
evidence (not solver-decided): the built binary imports no environment-dependent libc functions."""
import subprocess
from core import Inst
import c07, c13, exprlib

META = {
    'functions': ['decl.c:declarator/tagspec/addmember', 'init.c:parseinit', 'expr.c:primaryexpr/postfixexpr', 'type.c:mktype/mkpointertype/mkarraytype', 'decl.c:mkdecl', 'expr.c:mkexpr/mkconstexpr', 'qbe.c:emitdata (image)', 'scan.c:scan (token)', 'qbe.c:funcexpr (lowering)'],
    'bounds': {'parser-level': 'flexible/zero-width/aligned layouts, incomplete-array, union and string initializers, literal and compound-literal typing (see C06/C07/C05 for the oracles)', 'twin': 'symbolic constructor arguments, symbolic heap garbage (first 160 bytes of every block)', 'reuse': 'slices of C07/C13/C01 instances'},
    'stubs': ['xmalloc fills blocks with symbolic garbage'],
    'outside': ['locale/TZ/cwd/ASLR perturbation of the real process', 'stdin vs file, -o vs stdout (libc I/O)', 'self-built vs reference-built binary (C02)', 'hash-table iteration order (only mapfree iterates)'],
}


def instances(build, tier, seed):
    L = [Inst('pure.constructors', 'h_pure.c', {}, units=['type', 'decl', 'expr', 'util'], overrides=['fatal', 'xmalloc', 'error'], unwind=8,
              unwindset=['xmalloc.0:162', 'memcmp.0:100', 'memset.0:100'], native_units=['tree', 'token', 'map', 'eval', 'init', 'scope', 'targ', 'attr', 'stmt', 'utf', 'scan', 'pp', 'qbe'],
              family='pure.twin', timeout=300, bound={'arguments': 'symbolic', 'heap garbage': 'symbolic'})]
    L += [i for i in c07.data_instances('quick', fam='pure.data') if len(i.bound['initializers']) == 1]
    L += [i for i in c13.scan_instances('quick', fam='pure.scan') if 'SECOND' not in i.defs and i.defs['FIRST'] % 8 == 1]
    L += [i for i in exprlib.expr_instances('quick', seed, 'ONLY_RT', 'pure.select', ops=('add', 'lt', 'shr')) if not i.optional][::3]
    L += exprlib.ptrcmp_instances('quick', seed, 'ONLY_RT', 'pure.select')
    # parser-level: declarators, struct/union layout, initializer parsing and typing run on allocator blocks with arbitrary contents; every result
    # (sizes, offsets, emitted images, type judgements) is pinned, so a field read before it is written shows up as a failing assertion
    import c06, initlib, typeoflib
    L += [i for i in c06.abi_instances('quick', seed, fam='pure.layout') if '[]' in i.bound['definition'] or ': 0' in i.bound['definition'] or 'alignas' in i.bound['definition']][:10]
    L += [i for i in initlib.static_instances('quick', fam='pure.init') if '[]' in i.bound['declaration'] or 'union' in i.bound['declaration'] or '"' in i.bound['declaration']]
    L += [i for i in typeoflib.instances('quick', fam='pure.typeof') if any(w in i.bound['expression'] for w in ('"', '){', 'sizeof', 'arr2'))]
    # side evidence, recorded in META (not a solver obligation)
    try:
        out = subprocess.run(['nm', '-u', build.nat + '/cproc-qbe'], capture_output=True, text=True).stdout
        bad = [w for w in ('getenv', 'setlocale', 'time', 'rand', 'srand', 'getpid', 'clock', 'gettimeofday', 'localtime') if any(l.split()[-1].split('@')[0] == w for l in out.split('\\n') if l.split())]
        META['bounds']['imports'] = 'cproc-qbe imports none of getenv/setlocale/time/rand/getpid/clock' if not bad else 'cproc-qbe imports: %s' % bad
    except Exception as e:
        META['bounds']['imports'] = 'not checked: %s' % e
    return L
