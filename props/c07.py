from core import Inst
import itertools

ALLNATIVE = ['tree', 'util', 'token', 'map', 'type', 'decl', 'expr', 'eval', 'init', 'scope', 'targ', 'attr', 'stmt', 'utf', 'scan', 'pp']
META = {
    'functions': ['qbe.c:emitdata', 'qbe.c:dataitem', 'qbe.c:emitname', 'qbe.c:qbetype', 'eval.c:eval (constants)', 'init.c:initadd', 'init.c:mkinit'],
    'bounds': {},
    'stubs': ['printf/puts/fputs/putchar decode the emitted items into a byte image', 'error/fatal end the path', 'xmalloc never NULL'],
    'outside': ['floating-point items (printed as decimal text)', 'address constants symbol+offset (checked textually by the suite)', 'objects larger than 24 bytes',
                'initializer lists longer than the bound', 'multiple-union-member initialisation (unsupported upstream, todo/38)', 'parseinit designator/brace parsing'],
}


def data_instances(tier, fam='data', safety=False):
    L = []
    letters = 'bhwlBHWL'
    seqs = [''.join(t) for n in (1, 2) for t in itertools.product(letters, repeat=n)]
    if tier == 'thorough':
        seqs += [''.join(t) for t in itertools.product('bwBWL', repeat=3)]
    if tier == 'quick':
        # two large-unit bit-fields in one list cost minutes (symbolic 64-bit shifts): thorough tier only
        seqs = [f for f in seqs if sum(c.isupper() for c in f) <= 1 or all(c in 'BH' for c in f if c.isupper())]
    for f in seqs:
        L.append(Inst('%s.%s' % (fam, f), 'h_data.c', {'FORMS': '"%s"' % f}, units=['eval', 'type', 'util'], overrides=['fatal', 'xmalloc'],
                      native_units=ALLNATIVE, backends=['sat'] if tier == 'quick' else ['sat', 'kissat'], unwind=12, unwindset=['streq.0:22'] + ['main.%d:27' % i for i in range(12)], family=fam, safety=safety,
                      timeout=300 if tier == 'quick' else 3600, mem_gb=12 if tier == 'quick' else 32,
                      bound={'initializers': f, 'object_bytes': '<=24', 'offsets/bit positions/widths/values': 'symbolic'}))
    return L


OBJ = 24


def instances(build, tier, seed):
    L = data_instances(tier)
    for nold in ((2,) if tier == 'quick' else (2, 3, 4)):
        L.append(Inst('initadd.old%d' % nold, 'h_initadd.c', {'NOLD': nold}, units=[], unwind=nold + 4, family='initadd',
                      native_units=['util', 'token', 'expr', 'type', 'eval', 'decl', 'map', 'scope', 'targ', 'attr', 'stmt', 'utf', 'scan', 'pp', 'qbe', 'tree'],
                      timeout=300 if tier == 'quick' else 1800, bound={'old_initializers': nold}))
    META['bounds'] = {'data': 'lists of <= %d initializers (scalar / bit-field in every order), object <= 24 bytes' % (3 if tier == 'quick' else 4),
                      'initadd': 'valid lists of <= %d entries + 1 new' % (3 if tier == 'quick' else 4)}
    return L
