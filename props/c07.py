from core import Inst
import itertools

ALLNATIVE = ['tree', 'util', 'token', 'map', 'type', 'decl', 'expr', 'eval', 'init', 'scope', 'targ', 'attr', 'stmt', 'utf', 'scan', 'pp']
META = {
    'functions': ['qbe.c:funcinit', 'qbe.c:zero', 'qbe.c:funcstore', 'qbe.c:funcalloc', 'qbe.c:emitdata', 'qbe.c:dataitem', 'qbe.c:emitname', 'qbe.c:qbetype', 'eval.c:eval (constants)', 'init.c:initadd', 'init.c:mkinit'],
    'bounds': {},
    'stubs': ['printf/puts/fputs/putchar decode the emitted items into a byte image', 'error/fatal end the path', 'xmalloc never NULL'],
    'outside': ['floating-point items (printed as decimal text)', 'address constants symbol+offset (checked textually by the suite)', 'objects larger than 24 bytes',
                'initializer lists longer than the bound', 'multiple-union-member initialisation (unsupported upstream, todo/38)', 'parseinit designator/brace parsing'],
}


def data_instances(tier, fam='data', safety=False):
    L = []
    letters = 'bhwlBHWL'
    seqs = [''.join(t) for n in (1, 2) for t in itertools.product(letters, repeat=n)]
    if tier == 'thorough':
        seqs += [''.join(t) for t in itertools.product('bwB', repeat=3)]        # ~40 min each; 'W'/'L' bit-fields in lists of three gave no verdict within an hour
    if tier == 'quick':
        # two large-unit bit-fields in one list cost minutes (symbolic 64-bit shifts): thorough tier only
        seqs = [f for f in seqs if sum(c.isupper() for c in f) <= 1 or all(c in 'BH' for c in f if c.isupper())]
    for f in seqs:
        L.append(Inst('%s.%s' % (fam, f), 'h_data.c', {'FORMS': '"%s"' % f}, units=['eval', 'type', 'util'], overrides=['fatal', 'xmalloc'],
                      native_units=ALLNATIVE, backends=['sat'] if tier == 'quick' else ['sat', 'kissat'], unwind=12, unwindset=['streq.0:22'] + ['main.%d:27' % i for i in range(12)], family=fam, safety=safety,
                      timeout=300 if tier == 'quick' else 3600, mem_gb=12 if tier == 'quick' else 32, optional=(len(f) == 3),
                      bound={'initializers': f, 'object_bytes': '<=24', 'offsets/bit positions/widths/values': 'symbolic'}))
    return L


OBJ = 24


# (name, object size, alignment, [(start, unit bytes, bit position, width or 0 for a plain member)])
LAYOUTS = [
    ('int-gap-int', 12, 4, [(0, 4, 0, 0), (8, 4, 0, 0)]),
    ('char-then-bitfield-same-unit', 4, 4, [(0, 1, 0, 0), (0, 4, 8, 8)]),
    ('bitfields-mixed-units', 4, 4, [(0, 1, 0, 4), (0, 4, 4, 4)]),
    ('two-bitfields', 4, 4, [(0, 4, 0, 5), (0, 4, 5, 11)]),
    ('bitfield-then-int', 8, 4, [(0, 4, 3, 7), (4, 4, 0, 0)]),
    ('char-pad-long', 16, 8, [(0, 1, 0, 0), (8, 8, 0, 0)]),
    ('middle-only', 12, 4, [(4, 4, 0, 0)]),
    ('short-bitfield-tail', 4, 2, [(0, 2, 0, 0), (2, 2, 9, 7)]),
    ('byte-bitfields', 2, 1, [(0, 1, 1, 7), (1, 1, 0, 3)]),
    ('long-bitfield', 16, 8, [(0, 8, 0, 33), (0, 8, 33, 31), (8, 4, 0, 0)]),
    ('tail-zero', 16, 4, [(0, 4, 0, 0)]),
    ('aligned16', 32, 16, [(16, 4, 0, 0)]),
]


def funcinit_instances(tier, fam='autoinit', safety=False):
    L = []
    for nm, size, align, inits in LAYOUTS:
        inc = '#define OBJSIZE %d\n#define OBJALIGN %d\n#define NINIT %d\nstatic const struct { unsigned start, usz, before, width; } LAY[NINIT] = {%s};\n' % (
            size, align, len(inits), ', '.join('{%d, %d, %d, %d}' % t for t in inits))
        L.append(Inst('%s.%s' % (fam, nm), 'h_funcinit.c', {}, units=['type', 'util', 'eval'], overrides=['fatal', 'xmalloc'], native_units=ALLNATIVE, unwind=12,
                      unwindset=['il_run.0:60', 'il_is_stop.0:14', 'il_run.1:70', 'main.0:66', 'main.1:66', 'main.2:66', 'main.3:66', 'main.4:66', 'main.5:66', 'main.6:66', 'zero.0:40'], files={'layout.inc': inc},
                      family=fam, safety=safety, timeout=300, bound={'layout': nm, 'values and previous memory': 'symbolic'}))
    return L


def datastr_instances(tier, fam='datastr', safety=False):
    L = []
    for w in (1, 2, 4):
        for snel in (2, 3):
            for sarr in (snel - 1, snel, snel + 2):
                # no override / override inside the literal / override beyond the literal (in the zero-extended tail)
                for ovr in [None] + sorted({0, snel - 1, sarr - 1} & set(range(sarr))):
                    defs = {'W': w, 'SNEL': snel, 'SARR': sarr}
                    nm = '%s.w%d.lit%d.arr%d' % (fam, w, snel, sarr)
                    if ovr is not None:
                        defs['OVR'] = ovr
                        nm += '.ovr%d' % ovr
                    L.append(Inst(nm, 'h_datastr.c', defs, units=['eval', 'type', 'util'],
                                  overrides=['fatal', 'xmalloc'], native_units=ALLNATIVE, unwind=14, unwindset=['streq.0:22'] + ['main.%d:44' % i for i in range(8)],
                                  family=fam, safety=safety, timeout=300,
                                  bound={'element_width': w, 'literal_elements': snel, 'array_elements': sarr, 'overridden_element': ovr, 'contents': 'symbolic'}))
    return L


def instances(build, tier, seed):
    L = data_instances(tier) + funcinit_instances(tier)
    L += datastr_instances(tier)
    import initlib
    L += initlib.static_instances(tier) + initlib.reject_instances(tier)
    for nold in ((2,) if tier == 'quick' else (2, 3, 4)):
        for cont in range(1 << nold):
            L.append(Inst('initadd.old%d.cont%d' % (nold, cont), 'h_initadd.c', {'NOLD': nold, 'CONT': cont}, units=[], unwind=nold + 4, unwindset=['initadd.0:%d' % (nold + 1), 'initadd.1:%d' % (nold + 2)], family='initadd',
                          native_units=['util', 'token', 'expr', 'type', 'eval', 'decl', 'map', 'scope', 'targ', 'attr', 'stmt', 'utf', 'scan', 'pp', 'qbe', 'tree'],
                          timeout=300 if tier == 'quick' else 1800, optional=(nold >= 3), bound={'old_initializers': nold, 'containers (bit mask)': cont}))
    META['bounds'] = {'datastr': 'string-initialised arrays: element width 1/2/4, literal of 2-3 elements, array shorter/equal/longer, symbolic contents',
                      'data': 'lists of <= %d initializers (scalar / bit-field in every order), object <= 24 bytes' % (3 if tier == 'quick' else 4),
                      'initadd': 'valid lists of <= %d entries + 1 new' % (3 if tier == 'quick' else 4)}
    return L
