"""C11: diagnostics carry file:line:col of a token of the offending construct.  Obligations: (1) every token's location is that of its first
character and the scanner's running location counts physical lines/columns through splices and comments (scan/nextchar families, the location
assertions of harness/h_scan.c and h_nextchar.c); (2) error() prints the location it is given as "file:line:col: error: " and exits 1;
(3) for catalogue violations placed on a line of their own, the diagnostic's line is that line (parser harness, ERRLINE)."""
from core import Inst
import c13, parselib

META = {
    'functions': ['scan.c:nextchar', 'scan.c:scankind (location capture)', 'scan.c:scan', 'scan.c:comment', 'token.c:error'],
    'bounds': {'scan': 'see C13 (every 3rd first byte + all white-space/comment/newline starts)', 'error': 'symbolic line/column'},
    'stubs': ['as in C13', 'fprintf/vfprintf/putc/exit recorded'],
    'outside': ['#line / line-marker directives (pp.c:directive)', 'which token of a construct each diagnostic site picks, beyond the catalogue samples', 'columns'],
}
LINES = [
    ('undeclared', 'int a;\nint f(void) {\n  return\n  y;\n}\n', 4, 'undeclared identifier'),
    ('assign-const', 'void f(void) {\n  const int c = 1;\n\n  c = 2;\n}\n', 4, "cannot store to 'const' object"),
    ('static-assert', 'int a;\n\n\nstatic_assert(0);\nint b;\n', 4, 'static assertion failed'),
    ('bitfield-wide', 'struct s {\n  int a;\n  int b : 33;\n};\n', 3, "bit-field '%s' exceeds width of underlying type"),
    ('break-outside', 'void f(void) {\n  int x;\n  break;\n}\n', 3, "'break' statement must be in loop or switch"),
]


def instances(build, tier, seed):
    L = []
    for i in c13.scan_instances(tier, fam='loc.scan'):
        fb = i.defs['FIRST']
        if 'SECOND' in i.defs:
            if i.defs['SECOND'] not in (10, 34, 39, 97, -1):
                continue
        elif fb % 3 and fb not in (9, 10, 11, 12, 32, 47, 34, 39, 45, 46, 60, 62, -1):      # all white space, quotes, comments and the punctuators with look-ahead/pushback
            continue
        L.append(i)
    nn = 5 if tier == 'quick' else 7
    L.append(Inst('loc.nextchar.n%d' % nn, 'h_nextchar.c', {'N': nn}, units=['token', 'util'], unwind=nn + 3, family='loc.nextchar', timeout=300 if tier == 'quick' else 900,
                  bound={'bytes': nn, 'splices': 'anywhere'}))
    L.append(Inst('loc.errfmt', 'h_errfmt.c', {}, units=['util'], overrides=['fatal'], unwind=26, family='loc.errfmt', timeout=120, bound={'line, col': 'symbolic'}))
    for nm, src, line, msg in LINES:
        L.append(parselib.parse_inst('loc.diag.' + nm, src, True, 'loc.diag', errmsg=msg, errline=line, unwind=70))
    return L
