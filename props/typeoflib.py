"""C05 at parser level: the type the real expression parser (expr.c) gives an expression, observed through
   typedef typeof(E) t0;  static_assert(__builtin_types_compatible_p(t0, T) == K);
for every candidate type T of a pool.  K comes from the platform compiler (gcc -std=gnu2x) at generation time, so the instance checks both
that the expression has the type C prescribes and that it is not mistaken for a near miss (qualifier lost, not promoted, wrong signedness)."""
import os, re, subprocess, tempfile, hashlib, json
import parselib

PRELUDE = '''enum e { EA, EB = 5 };
struct s { int m; const int cm; int arr[3]; int bf : 3; unsigned ubf : 5; struct { char ic; } in; };
int i; unsigned u; long l; unsigned long ul; long long ll; unsigned long long ull; char c; signed char sc; unsigned char uc; short sh; unsigned short us;
float f; double d; _Bool b; enum e en;
int *p; const int *cp; volatile int *vp; void *v; const void *cv; char *s; const char *cs; long *lp;
int arr[4]; const int carr[4]; int arr2[2][3];
int fn(int); void vfn(void);
struct s st; const struct s cst; struct s *ps; const struct s *cps; volatile struct s vst;
'''
POOL = {
    'arith': ['int', 'unsigned', 'long', 'unsigned long', 'long long', 'unsigned long long', 'char', 'signed char', 'unsigned char', 'short', 'unsigned short',
              'float', 'double', '_Bool', 'enum e'],
    'ptr': ['int *', 'const int *', 'volatile int *', 'const volatile int *', 'void *', 'const void *', 'char *', 'const char *', 'long *', 'unsigned *',
            'int (*)[4]', 'int (*)[3]', 'const int (*)[4]', 'const int (*)[3]', 'int (*)(int)', 'void (*)(void)', 'struct s *', 'const struct s *', 'int **'],
    'other': ['int [4]', 'int [3]', 'int [2]', 'char [3]', 'char [2]', 'int (int)', 'void (void)', 'struct s', 'void', 'unsigned short [3]', 'unsigned [3]'],
}
EXPRS = [
    # conditional operator (C11 6.5.15)
    'i ? p : cp', 'i ? cp : p', 'i ? vp : cp', 'i ? cp : vp', 'i ? p : v', 'i ? v : p', 'i ? cp : v', 'i ? v : cp', 'i ? p : cv', 'i ? cv : p', 'i ? p : 0', 'i ? 0 : cp', 'i ? (void *)0 : cp',
    'i ? cp : (void *)0', 'i ? s : cs', 'i ? ps : cps', 'i ? arr : cp', 'i ? fn : fn', 'i ? fn : 0', 'i ? st : st', 'i ? vfn() : vfn()',
    'i ? i : u', 'i ? c : c', 'i ? sh : sh', 'i ? uc : uc', 'i ? b : b', 'i ? sh : uc', 'i ? l : u', 'i ? ul : ll', 'i ? f : i', 'i ? d : f', 'i ? en : en', 'i ? en : i', 'i ? st.bf : st.bf', 'i ? 1 : 2u',
    # constant controlling expression: the result type is still the one of 6.5.15p5/p6, not the type of the selected arm
    '1 ? 0 : lp', '0 ? lp : 0', '1 ? (void *)0 : lp', '1 ? p : v', '0 ? v : p', '1 ? p : cp', '0 ? cp : p', '1 ? i : u', '0 ? u : i', '1 ? c : c', '1 ? f : d', '0 ? d : f', '1 ? l : i', '1 ? st.bf : l',
    '1 ? arr : cp', '1 ? en : u', 'sizeof(1 ? c : c)',
    # pointer arithmetic, decay, address-of
    'p + 1', 'cp + i', '1 + s', 'p - 1', 'p - p', 'cp - p', '&arr[1] - arr', 'arr', 'arr + 0', '&arr', '&arr[0]', '*arr2', 'arr2[1]', '&arr2[1]', 'arr2 + 1', '*arr2 + 1', 'carr + 0', '&carr',
    'fn', '&fn', '*fn', 'fn(1)', 'vfn()', '(*fn)(1)', '(&fn)(2)', '*p', '*cp', '&*cp', '*&cp', 'p[1]', '1[p]', 'arr2[1][2]', '&arr2[1][2]',
    # sizeof/_Alignof, casts, assignment, unary, comma
    'sizeof i', 'sizeof(char)', '_Alignof(int)', 'sizeof arr2', '(char)i', '(const int *)p', '(void)i', '(unsigned char)l', '(long *)v', '(enum e)1',
    'c = i', 'uc += l', 'p = 0', 'l = c', 'f = d', 'b = l', 'en = 1', '(i = 1, l)', '(c, uc)', 'c++', '++sh', 'p++', '--cp', '-c', '~uc', '+sh', '!d', '-u', '~l', '-f', '+b', '-en', '!p', '~b',
    # shifts, comparisons, logic
    'c << l', 'l << c', 'u >> ll', 'uc << 1', 'ull >> c', 'b << b', 'l < d', 'p == 0', 'f && d', 'p || i', 'cp != p', 'u < i', 'p < p',
    # usual arithmetic conversions
    'i + u', 'l + u', 'll + ul', 'f + i', 'd + f', 'c + c', 'us + sh', 'ull + ll', 'b + b', 'en + 1', 'en + u', 'i * 2.0f', 'u % l', 'sc & uc', 'i | ul', 'll ^ u', 'ul - l', 'l / ll', 'c * uc', 'f / ull', 'd - ul',
    'sh + sh', 'uc + uc', 'us * us', 'l + c', 'ul & i',
    # literals
    '1', '1u', '1l', '2147483647', '2147483648', '0x7fffffff', '0x80000000', '0xffffffff', '0x100000000', '0xffffffffffffffff', '9223372036854775807', '4294967296u', '1ll', '1ull', '1ul', '0', '017777777777', '037777777777',
    '0b1', '1.0', '1.0f', '1e3', '.5f', "'a'", "L'a'", "u'a'", "U'a'", '"ab"', 'L"ab"', 'u"ab"', 'U"ab"', '"a" "b"',
    # members: qualifiers are inherited from the aggregate
    '&st.m', '&cst.m', '&st.cm', '&cps->m', '&ps->m', '&ps->arr', '&cst.arr', 'cst.arr + 0', '&vst.m', '&cst.in.ic', 'st.bf + 0', 'st.ubf + 0', '+st.ubf', 'st.m', 'cps->arr[1]', '&cps->arr[1]', '*ps',
    'st.ubf << 1', '-st.ubf', 'st.ubf + u', 'st.bf + l',
    # enum constants, _Generic, compound literals
    'EA', 'EB', 'en', '_Generic(c, char: 1.0f, default: 1)', '_Generic(cp, int *: 1, const int *: 1u, default: 1l)', '_Generic(arr, int *: 1ul, default: 1)', '_Generic(+c, int: 1ll, char: 1)',
    '(int[2]){1, 2}', '&(struct s){0}', '(const int){1}', '&(const int){1}', '(struct s){0}.arr', '&(int[2]){1, 2}[1]',
]
CACHE = '/var/tmp/cproc-verif/typeof-cache.json'


def _gcc(expr, cands):
    """which candidates does gcc find compatible with typeof(expr)? None if gcc rejects the expression"""
    body = ''.join('int r%d[__builtin_types_compatible_p(__typeof__(%s), %s) ? 1 : 2];\n' % (k, expr, t) for k, t in enumerate(cands))
    prog = PRELUDE + 'void probe(void) {\n' + body + ''.join('__builtin_printf("%%d\\n", (int)sizeof r%d / (int)sizeof(int));\n' % k for k in range(len(cands))) + '}\nint main(void) { probe(); return 0; }\n'
    with tempfile.TemporaryDirectory() as td:
        open(td + '/a.c', 'w').write(prog)
        r = subprocess.run(['gcc', '-std=gnu2x', '-w', '-o', td + '/a', td + '/a.c'], capture_output=True, text=True)
        if r.returncode:
            return None
        out = subprocess.run([td + '/a'], capture_output=True, text=True).stdout.split()
    return [o == '1' for o in out]


def oracle(expr):
    try:
        cache = json.load(open(CACHE))
    except Exception:
        cache = {}
    allc = POOL['arith'] + POOL['ptr'] + POOL['other']
    key = hashlib.sha1((PRELUDE + expr + '|'.join(allc)).encode()).hexdigest()
    if key not in cache:
        cache[key] = _gcc(expr, allc)
        os.makedirs(os.path.dirname(CACHE), exist_ok=True)
        json.dump(cache, open(CACHE + '.tmp%d' % os.getpid(), 'w'))
        os.replace(CACHE + '.tmp%d' % os.getpid(), CACHE)
    res = cache[key]
    return None if res is None else dict(zip(allc, res))


def _prelude_for(text):
    """only the declarations the expression and the candidate types mention (every identifier costs symbolic-execution time)"""
    words = set(re.findall(r'[A-Za-z_]\w*', text))
    out = []
    if ('e' in words and 'enum' in words) or words & {'en', 'EA', 'EB'}:
        out.append('enum e { EA, EB = 5 };')
    if ('s' in words and 'struct' in words) or words & {'st', 'cst', 'ps', 'cps', 'vst'}:
        out.append('struct s { int m; const int cm; int arr[3]; int bf : 3; unsigned ubf : 5; struct { char ic; } in; };')
    for ln in PRELUDE.strip().split('\n')[2:]:
        for d in [x.strip() + ';' for x in ln.split(';') if x.strip()]:      # one declaration per declarator
            names = re.findall(r'([A-Za-z_]\w*)\s*(?:\[[^\]]*\])*(?:\([^)]*\))?\s*;$', d)
            if names and names[0] in words:
                out.append(d)
    return '\n'.join(out) + '\n'


LADDER = ['_Bool', 'char', 'signed char', 'unsigned char', 'short', 'unsigned short', 'int', 'unsigned', 'long', 'unsigned long', 'long long', 'unsigned long long', 'float', 'double']
PAIRS = [('int *', 'void *'), ('const int *', 'const void *'), ('int (*)[4]', 'int *'), ('int (*)[3]', 'int *'), ('int [4]', 'int *'), ('int [3]', 'int *'), ('int (int)', 'int (*)(int)'),
         ('void (void)', 'void (*)(void)'), ('struct s', 'struct s *'), ('char [3]', 'char *'), ('int', 'enum e'), ('unsigned', 'enum e'),
         ('const int (*)[4]', 'int (*)[4]'), ('const int (*)[3]', 'int (*)[3]'), ('long', 'int *'), ('unsigned long', 'long')]


def _near(pos, cands, k):
    """near misses of the compatible types: qualifier lost or gained, other signedness, unpromoted/neighbouring rank, pointer vs pointee/array,
    topped up with the candidates spelled most like a compatible type"""
    import difflib
    allc = POOL['arith'] + POOL['ptr'] + POOL['other']
    v = []
    for t in pos:
        for q in ('const ', 'volatile '):
            v.append(t.replace(q, '', 1) if q in t else q + t)
        v.append('const volatile ' + t if 'const' not in t else t)
        v.append(t[9:] if t.startswith('unsigned ') else 'unsigned ' + t)
        if t == 'unsigned':
            v.append('int')
        if t == 'int':
            v += ['unsigned', 'char', '_Bool', 'short', 'unsigned char']
        if t in LADDER:
            j = LADDER.index(t)
            v += LADDER[max(0, j - 2):j + 3]
        for a, b in PAIRS:
            if t == a:
                v.append(b)
            if t == b:
                v.append(a)
    neg = []
    for t in v:
        if t in allc and t not in pos and t not in neg:
            neg.append(t)
    rest = [t for t in cands if t not in pos and t not in neg]
    rest.sort(key=lambda t: -max(difflib.SequenceMatcher(None, t, q).ratio() for q in pos))
    return (neg + rest)[:k]


def instances(tier, fam='typeof'):
    L = []
    seen = set()
    for n, e in enumerate(EXPRS):
        o = oracle(e)
        assert o is not None, 'gcc rejects %r' % e
        pos = [t for t, k in o.items() if k]
        assert pos, 'no candidate type for %r' % e
        groups = [g for g, ts in POOL.items() if any(t in ts for t in pos)]
        cands = [t for g in groups for t in POOL[g]]
        if 'arith' not in groups:
            cands += ['int', 'long', 'unsigned long']
        if 'ptr' not in groups:
            cands += ['int *', 'void *']
        if tier == 'quick':
            cands = pos + _near(pos, cands, 8)
        body = 'void probe(void) { typedef typeof(%s) t0;\n' % e + ''.join('static_assert(__builtin_types_compatible_p(t0, %s) == %d);\n' % (t, o[t]) for t in cands) + '}\n'
        src = _prelude_for(body) + body
        nm = e
        for a, b in (('->', '_arrow_'), ('&&', '_land_'), ('||', '_lor_'), ('<<', '_shl_'), ('>>', '_shr_'), ('==', '_eq_'), ('!=', '_ne_'), ('++', '_inc_'), ('--', '_dec_'), ('+=', '_addeq_'),
                     ('&', '_amp_'), ('*', '_star_'), ('+', '_plus_'), ('-', '_minus_'), ('~', '_not_'), ('!', '_lnot_'), ('?', '_q_'), (':', '_c_'), ('<', '_lt_'), ('=', '_as_'), ('.', '_dot_'),
                     ('[', '_lb_'), (']', '_rb_'), ('(', '_lp_'), (')', '_rp_'), ('/', '_div_'), ('%', '_mod_'), ('|', '_or_'), ('^', '_xor_'), (',', '_comma_'), ('"', '_dq_'), ("'", '_sq_')):
            nm = nm.replace(a, b)
        nm = re.sub(r'_+', '_', re.sub(r'[^A-Za-z0-9_]+', '_', nm)).strip('_')[:60]
        assert nm not in seen, 'duplicate instance name %s' % nm
        seen.add(nm)
        i = parselib.parse_inst('%s.%s' % (fam, nm), src, False, fam, unwind=70, timeout=300 if tier == 'quick' else 1200, maxtok='fit', witness=(n % 8 == 0))      # an instance that does not reach its end fails 'accepted' anyway; a sample of twins guards the pools' PATH_ENDs
        i.bound = {'expression': e, 'type (gcc)': pos, 'candidates checked': cands}
        L.append(i)
    return L
