from core import Inst

META = {
    'functions': ['map.c:mapput', 'map.c:mapget', 'map.c:keyindex', 'map.c:keyequal', 'map.c:mapkey', 'map.c:hash', 'map.c:mapinit',
                  'scope.c:scopegetdecl', 'scope.c:scopegettag', 'scope.c:scopeputdecl', 'scope.c:scopeputtag', 'scope.c:mkscope',
                  'decl.c:stringdecl'],
    'bounds': {},
    'stubs': ['xreallocarray/xmalloc = malloc, never NULL', 'emitdata/mkglobal/mkinit recorded (stringdecl harness)'],
    'outside': ['tables with more slots than the bound (the step is inductive: any valid pre-state, so histories are unbounded, capacity is bounded)',
                'names longer than 1 byte in the table step (hash value is unconstrained instead)', 'macro and goto tables reuse the same map.c code',
                'typedef-vs-identifier disambiguation in the parser'],
}


def map_instances(tier, fam='map', safety=False):
    L = []
    caps = (4,) if tier == 'quick' else (4, 8)   # mapinit is only ever called with 8, 32, 64: cap/2 >= 2
    for cap in caps:
        for grow in (False, True):
            defs = {'CAP': cap}
            if grow:
                defs['GROW'] = None
            L.append(Inst('%s.cap%d.%s' % (fam, cap, 'grow' if grow else 'nogrow'), 'h_map.c', defs, units=[], unwind=2 * cap + 2,
                          family=fam, safety=safety, timeout=300 if tier == 'quick' else 3600, mem_gb=12 if tier == 'quick' else 32,
                          bound={'capacity': cap, 'rehash': grow, 'hashes': 'unconstrained 64-bit', 'keys': '1 byte'}))
    return L


def instances(build, tier, seed):
    L = map_instances(tier)
    L.append(Inst('keyequal.len4', 'h_keyequal.c', {'L': 4}, units=[], unwind=7, unwindset=['memcmp.0:6'], family='keyequal',
                  timeout=300, bound={'key_bytes': 4}))
    L.append(Inst('scope.chain3', 'h_scope.c', {}, units=[], unwind=6, family='scope', timeout=300 if tier == 'quick' else 1800,
                  bound={'scopes': 3, 'names': 3, 'placement': 'symbolic bit-vector for decls and tags'}))
    L.append(Inst('stringdecl.el3', 'h_stringdecl.c', {'MAXEL': 3}, units=['map', 'util', 'type'], overrides=['fatal', 'xmalloc', 'xreallocarray'],
                  native_units=['tree', 'token', 'expr', 'eval', 'init', 'scope', 'targ', 'attr', 'stmt', 'utf', 'scan', 'pp', 'qbe'],
                  unwind=14, unwindset=['mapinit.0:66', 'memcmp.0:14', 'hash.0:14'], family='stringdecl', timeout=300 if tier == 'quick' else 1800,
                  bound={'elements': 3, 'element_width': '1/2/4 symbolic'}))
    META['bounds'] = {'map': 'capacity %s, all slot contents/collision patterns' % ('4' if tier == 'quick' else '4,8'),
                      'keyequal': 'names <= 4 bytes', 'scope': '3 nested scopes x 3 names', 'stringdecl': '2 literals <= 3 elements of width 1/2/4'}
    return L
