"""C03: well-formedness of the emitted IL.  Solver-decided obligations: class/definition rules checked by the IL semantics on everything the
back end lowers (a representative slice of the C01 instances, the switch ladders, memory operations), the builder state machine, data
definitions of exactly the object's size/alignment (C07 decoders), jumps only to existing blocks (goto/label diagnostics)."""
from core import Inst
import exprlib, c01, c07, c15, parselib

META = {
    'functions': ['qbe.c:funcinst', 'qbe.c:funclabel', 'qbe.c:funcjmp', 'qbe.c:funcjnz', 'qbe.c:funcret', 'qbe.c:funchlt', 'qbe.c:funcexpr', 'qbe.c:convert', 'qbe.c:casesearch',
                  'qbe.c:emitdata', 'qbe.c:funcinit', 'qbe.c:checkgotos', 'stmt.c:label'],
    'bounds': {'builder': 'all sequences of <= 3 (quick) / 4 (thorough) builder calls over 6 operations, enumerated', 'classes': 'per operator/type pair (see C01)', 'data': 'see C07'},
    'stubs': ['as in C01/C07/C15 families'],
    'outside': ['whole-module parsing by QBE', 'dominance of definitions over uses beyond the executed paths of the 16 corpus functions', 'aggregate type definitions before use (emittype order)', 'interleaving of diagnostics and output'],
}


def instances(build, tier, seed):
    L = []
    import itertools
    for n in ((1, 2, 3) if tier == 'quick' else (1, 2, 3, 4)):
        for t in itertools.product('012345', repeat=n):
            sq = ''.join(t)
            L.append(Inst('builder.%s' % sq, 'h_builder.c', {'SEQ': '"%s"' % sq}, units=['type', 'util'], overrides=['fatal', 'xmalloc'], native_units=exprlib.NATIVE, unwind=2 * n + 8,
                          family='builder', timeout=120, witness=(sq.endswith('0')), bound={'builder_calls': sq}))
    ops = ('add', 'div', 'shr', 'lt', 'eq', 'land', 'lor')
    for i in exprlib.expr_instances(tier, seed, 'ONLY_RT', 'classes', ops=ops):
        if not i.optional:
            L.append(i)
    L += [i for i in exprlib.cast_instances(tier, seed, 'ONLY_RT', 'classes') if ('bool' in i.name or 'float' in i.name or 'double' in i.name)]
    L += [i for i in c15.ladder_instances(tier, fam='classes.ladder') if i.bound['case_labels'] <= 3]
    L += c07.funcinit_instances(tier, fam='classes.autoinit')
    L += [i for i in c07.data_instances(tier, fam='datasize') if len(i.bound['initializers']) == 1]
    # whole functions through the real parser and lowering; the IL interpreter checks classes, definitions before use on the executed
    # path, phi sources being the actual predecessor, call argument classes against the callee's prototype (harness/h_tv.c)
    import tvcorpus
    want = ('nestedcond', 'nestedcond-logic', 'nestedcond-both', 'cond-in-logic', 'cond-lvalue-ptr', 'logic', 'ternary', 'shortcircuit-side', 'forbreak', 'goto',
            'call-basic', 'call-variadic', 'call-conv', 'call-fptr', 'call-cond', 'bitfield', 'vla', 'vla-cond-size', 'vla-logic-size', 'vla-after-return', 'whileloop', 'call-struct-ret',
            'call-variadic-named', 'return-float', 'autoinit-desig')
    L += [i for i in tvcorpus.corpus_instances(tier, fam='ilfunc') if i.name.split('.', 1)[1] in want]
    L.append(parselib.parse_inst('jump.goto-undef', 'void f(void) { goto nowhere; }', True, 'jump', errmsg='use of undefined label', unwind=70))
    L.append(parselib.parse_inst('jump.label-dup', 'void f(void) { L: ; L: ; }', True, 'jump', errmsg='duplicate label', unwind=70))
    return L
