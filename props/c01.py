from core import Inst
import exprlib

META = {
    'functions': ['qbe.c:funcexpr', 'qbe.c:convert', 'qbe.c:funcinst', 'qbe.c:mkinst', 'qbe.c:qbetype', 'qbe.c:mkintconst', 'qbe.c:mkfltconst', 'qbe.c:funcjnz',
                  'qbe.c:funclabel', 'qbe.c:mkblock', 'expr.c:mkbinaryexpr', 'expr.c:exprconvert', 'type.c:typecommonreal'],
    'bounds': {'select': 'operator x (left type, right type) concrete, operand values fully symbolic; emitted IL executed by an IL semantics == C value',
               'cast': 'all 14x14 conversions'},
    'stubs': ['error()/fatal() end the path', 'xmalloc never NULL', 'realloc = typed pool for instruction arrays (growth cut)'],
    'outside': ['programs as a whole (this family checks instruction selection per operator)', 'float * and / values (operand routing only)', 'long double',
                'unspecified evaluation order', 'QBE -> machine code'],
}


def instances(build, tier, seed):
    L = exprlib.expr_instances(tier, seed, 'ONLY_RT', 'select')
    L += exprlib.cast_instances(tier, seed, 'ONLY_RT', 'select')
    return L
