from core import Inst
import exprlib

META = {
    'functions': ['qbe.c:funcexpr', 'qbe.c:convert', 'qbe.c:funcinst', 'qbe.c:mkinst', 'qbe.c:qbetype', 'qbe.c:mkintconst', 'qbe.c:mkfltconst', 'qbe.c:funcjnz',
                  'qbe.c:funclabel', 'qbe.c:mkblock', 'qbe.c:funcbits', 'qbe.c:funcstore', 'qbe.c:funcload', 'qbe.c:funccopy', 'qbe.c:zero', 'qbe.c:funcalloc', 'expr.c:mkbinaryexpr', 'expr.c:exprconvert', 'type.c:typecommonreal'],
    'bounds': {'tv': 'corpus functions parsed and lowered by the real front end, all argument values / pointed-to bytes symbolic, loops <= 3 iterations',
               'select': 'operator x (left type, right type) concrete, operand values fully symbolic; emitted IL executed by an IL semantics == C value',
               'cast': 'all 14x14 conversions'},
    'stubs': ['error()/fatal() end the path', 'xmalloc never NULL', 'realloc = typed pool for instruction arrays (growth cut)'],
    'outside': ['programs outside the tv corpus (22 functions: control flow, arrays, pointers, bit-fields, struct copy, side effects); calls, variadics, VLAs, alloca', 'float * and / values (operand routing only)', 'long double',
                'unspecified evaluation order', 'QBE -> machine code'],
}


def mem_instances(tier, fam='mem', safety=False):
    L = []
    common = dict(units=['type', 'util'], overrides=['fatal', 'xmalloc'], native_units=exprlib.NATIVE, unwind=6, safety=safety,
                  timeout=300 if tier == 'quick' else 1800, mem_gb=12)
    edge = {1: [1, 2, 7, 8], 2: [1, 7, 8, 9, 15, 16], 4: [1, 7, 8, 15, 16, 17, 31, 32], 8: [1, 8, 31, 32, 33, 63, 64]}
    for usz in (1, 2, 4, 8):
        bits = usz * 8
        if tier == 'thorough' and usz <= 2:
            combos = [(b, w) for b in range(bits) for w in range(1, bits - b + 1)]
        else:
            befs = sorted(set([0, 1, 3, 7, 8, bits // 2, bits - 1]))
            combos = sorted(set((b, w) for b in befs for w in edge[usz] if b + w <= bits) | set((bits - w, w) for w in edge[usz]))
            if tier == 'quick':
                combos = combos[::2] if usz >= 4 else combos
        for (b, w) in combos:
            for sgn in (0, 1):
                L.append(Inst('%s.bitfield.%s%d.b%d.w%d' % (fam, 's' if sgn else 'u', bits, b, w), 'h_mem.c', {'MODE': 1, 'USZ': usz, 'SGN': sgn, 'BEFORE': b, 'WIDTH': w},
                              family=fam + '.bitfield', unwindset=['il_run.0:20', 'il_is_stop.0:14', 'il_run.1:70'],
                              bound={'unit_bytes': usz, 'signed': bool(sgn), 'before': b, 'width': w, 'value/old contents': 'symbolic'}, **common))
    for al in (1, 2, 4, 8, 16):
        step = min(al, 8)
        sizes = [n for n in range(step, 33, step)]
        if tier == 'quick':
            sizes = [n for n in sizes if n <= 4 * step or n in (24, 32)]
        for n in sizes:
            L.append(Inst('%s.copy.align%d.size%d' % (fam, al, n), 'h_mem.c', {'MODE': 2, 'ALIGN': al, 'SIZE': n}, family=fam + '.copy',
                          unwindset=['il_run.0:%d' % (4 * n // step + 6), 'il_is_stop.0:14', 'il_run.1:70', 'main.0:50', 'main.1:50', 'main.2:50', 'main.3:50', 'funccopy.0:%d' % (n // step + 2)],
                          bound={'align': al, 'size': n, 'contents': 'symbolic'}, **common))
        ends = range(0, 9) if tier == 'quick' else range(0, 17)
        for e in ends:
            for o in range(0, e + 1):
                if tier == 'quick' and al in (2, 16) and (o + e) % 2:
                    continue
                L.append(Inst('%s.zero.align%d.o%d.e%d' % (fam, al, o, e), 'h_mem.c', {'MODE': 3, 'ALIGN': al, 'OFF': o, 'END': e}, family=fam + '.zero',
                              unwindset=['il_run.0:%d' % (2 * (e - o) + 6), 'il_is_stop.0:14', 'il_run.1:70', 'main.0:50', 'main.1:50', 'main.2:50', 'zero.0:%d' % (e - o + 8)],
                              bound={'align': al, 'gap': [o, e], 'previous contents': 'symbolic'}, **common))
    for al in (1, 2, 4, 8, 16, 32, 64):
        L.append(Inst('%s.alloc.align%d' % (fam, al), 'h_mem.c', {'MODE': 4, 'ALIGN': al}, family=fam + '.alloc', unwindset=['il_run.0:10', 'il_is_stop.0:14', 'il_run.1:70'], backends=['sat', 'z3'],
                      bound={'align': al, 'size': 'symbolic', 'stack address': 'symbolic'}, **common))
    return L


def instances(build, tier, seed):
    L = exprlib.expr_instances(tier, seed, 'ONLY_RT', 'select')
    L += exprlib.cast_instances(tier, seed, 'ONLY_RT', 'select')
    L += exprlib.ptrcmp_instances(tier, seed, 'ONLY_RT', 'select')
    L += mem_instances(tier)
    import c07
    L += c07.funcinit_instances(tier, fam='mem.autoinit')      # automatic-object initialisation (shared with C07)
    import tvcorpus
    L += tvcorpus.corpus_instances(tier)                       # whole functions through the real parser and lowering (in-memory translation validation)
    return L
