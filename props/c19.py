"""C19: the functional harnesses of other properties re-run with CBMC's full check set (bounds, pointers, signed overflow, division by zero,
shifts, conversions, pointer overflow, source assert()s) and with the real buffer growth paths, plus termination via unwinding assertions."""
from core import Inst
import c13, c14, c15, c16, c06, c07

META = {
    'functions': ['scan.c:* (incl. bufadd/bufget growth)', 'utf.c:*', 'tree.c:*', 'map.c:*', 'decl.c:addmember', 'qbe.c:emitdata', 'init.c:initadd', 'expr.c:decodechar/primaryexpr(TCHARCONST)',
                  'attr.c:parseattr (termination)', 'stmt.c:label / qbe.c:funcgoto (duplicate labels)'],
    'bounds': {'scan': 'inputs <= 3 bytes per token step (all first bytes), real 256-byte buffers', 'others': 'as in the functional families, smaller sizes'},
    'stubs': ['as in the functional families; realloc/malloc never fail'],
    'outside': ['nesting depth 10^4 / strings of 10^6 bytes (recursion depth of the parser cannot be unwound)', 'I/O failures of the real process (fflush/freopen)',
                'whole-program runs'],
}


def instances(build, tier, seed):
    L = []
    n = 3 if tier == 'quick' else 4
    for i in c13.scan_instances('quick', fam='safe.scan', extra_defs={'GROW': None}, safety=True):
        if 'SECOND' in i.defs:
            # prefix/backslash first bytes: keep a handful of second bytes (quote, digit, letter, EOF) in the safety run
            if i.defs['SECOND'] not in (97, 120, -1):      # quote/u8 continuations with real 256-byte buffers need > 8 GB: thorough tier
                continue
        i.defs['N'] = n
        i.unwind = n + 3
        i.name = i.name.replace('.n4', '.n%d' % n)
        i.timeout = 300 if tier == 'quick' else 1800
        if i.defs['FIRST'] in (34, 39):
            # literal bodies with the real 256-byte spelling buffer and all pointer checks need > 23 GB: these two run with the
            # shortened buffer object (any access past the token length is then itself an out-of-bounds report)
            i.defs.pop('GROW', None)
        L.append(i)
    for i in c14.instances(build, 'quick', seed):
        if i.family in ('utf', 'charconst') and 'riscv' not in i.name and 'aarch64' not in i.name:
            i.safety = True
            i.name = 'safe.' + i.name
            i.family = 'safe.' + i.family
            L.append(i)
    for i in c15.tree_instances('quick', fam='safe.tree', safety=True):
        if i.bound['nodes'] <= 3:
            L.append(i)
    for i in c16.map_instances('quick', fam='safe.map', safety=True):
        if 'nogrow' in i.name or tier == 'thorough':
            L.append(i)
    for i in c06.layout_instances('quick', fam='safe.layout', safety=True):
        if i.defs['K'] <= 2:
            L.append(i)
    for i in c07.data_instances('quick', fam='safe.data', safety=True):
        if len(i.bound['initializers']) == 1 or i.bound['initializers'] in ('wB', 'Bw', 'BB', 'lH'):
            L.append(i)
    for i in c07.datastr_instances('quick', fam='safe.datastr', safety=True):
        if 'ovr' in i.name:
            L.append(i)
    L.append(Inst('safe.subobj', 'h_subobj.c', {}, units=['type'], unwind=4, family='safe.subobj', safety=True, timeout=300,
                  native_units=['util', 'token', 'expr', 'eval', 'decl', 'map', 'scope', 'targ', 'attr', 'stmt', 'utf', 'scan', 'pp', 'qbe', 'tree'],
                  bound={'designator stack depth': 'symbolic 0..31'}))
    # the preprocessor on a slice of the C12 macro sets, with real deallocation (use after free) and all pointer checks
    import pplib
    L += [i for i in pplib.instances('quick', fam='safe.expand', safety=True) if any(w in i.name for w in ('keyword', 'function', 'variadic.', 'undef-history', 'painted', 'stringify.', 'reject.too-many', 'reject.eof'))]
    # parser-level robustness: unusual but syntactically possible inputs that must end in output or a diagnostic, never in a failed
    # internal assertion or an invalid access (every source assert() is a proof obligation under CBMC)
    import parselib
    for nm, src, err in ROBUST:
        i = parselib.parse_inst('safe.parse.' + nm, src, err, 'safe.parse', unwind=70, timeout=300)
        i.bound = {'skeleton': src, 'expected': 'diagnostic' if err else 'accepted'}
        L.append(i)
    return L


ROBUST = [
    ('qualified-function-param', 'typedef void F(void); void g(F const f);', False),
    ('qualified-function-param-2', 'typedef int F(int); int g(volatile F f, const F h) { return f(1) + h(2); }', False),
    ('zero-length-local', 'int f(void) { int z[0]; return sizeof z; }', False),
    ('zero-length-member', 'void g(void) { struct { int n; int d[0]; } v = {1}; }', False),
    ('excess-scalar-static', 'void f(void) { static int x = {1, 2}; }', True),
    ('excess-string-brace', 'char s[] = {"a", "b"};', True),
    ('flexible-init', 'struct s { int n; int d[]; }; struct s x = {.d[1] = 2};', True),
    ('string-tail-override', 'struct { char s[8]; } x = {.s = "ab", .s[5] = 1};', False),
    ('empty-nested', 'int x[2][2] = {{}, 7}; int y[] = {{}}; int z = {};', False),
    ('union-overlap', 'union { int a; char b; } u = {.a = 1, .b = 2};', False),
    ('unnamed-param-body', 'int f(int) { return 0; }', False),
    ('array-param-qual', 'void g(int a[const 2]) { }', False),
    ('func-returning-array', 'typedef int A[2]; A f(void);', True),
    ('enum-empty-fwd', 'enum e; enum e { A };', False),
    ('self-ref-sizeof', 'struct s { int a[sizeof(struct s *)]; };', False),
]
