from core import Inst

META = {
    'functions': ['driver.c:buildobj', 'driver.c:spawnphase', 'driver.c:spawn', 'driver.c:succeeded', 'driver.c:buildexe', 'driver.c:changeext'],
    'bounds': {'buildobj': 'pipelines of 1..4 stages (all 7 file types) x output in {derived, named, stdout, temporary object}; symbolic: failing spawn index, '
               'each child status (exit code / signal), order in which wait() reports children',
               'buildexe': '2 inputs of symbolic kind, linker cannot start / exits n / is signalled'},
    'stubs': ['posix_spawnp (records, fails at a symbolic index)', 'wait (nondeterministic choice among live children, symbolic status)',
              'waitpid', 'kill (records)', 'unlink (records)', 'pipe/fcntl/close/mkstemp/posix_spawn_file_actions_* succeed', 'warn empty', 'exit/fatal end the path after the checks'],
    'outside': ['real signals and zombie reaping by the OS', 'partial writes by tools', 'failures of pipe/fcntl/mkstemp themselves',
                'temporary objects of earlier, successful inputs when a later input fails (observation only)'],
}
PRE, COMP, CG, AS, LINK = 1, 2, 4, 8, 16
SHAPES = {
    'c.link': PRE | COMP | CG | AS | LINK, 'c.obj': PRE | COMP | CG | AS, 'c.asm': PRE | COMP | CG, 'c.qbe': PRE | COMP, 'c.E': PRE,
    'i.obj': COMP | CG | AS, 'qbe.obj': CG | AS, 's.obj': AS, 'S.obj': PRE | AS, 'S.link': PRE | AS | LINK, 'i.link': COMP | CG | AS | LINK,
}


def driver_instances(tier, fam='pipeline', safety=False):
    L = []
    for nm, st in SHAPES.items():
        outs = (0,) if st & LINK else ((0, 1) if st & AS else (0, 1, 2))
        for ok in outs:
            L.append(Inst('%s.%s.out%d' % (fam, nm, ok), 'h_driver.c', {'MODE': 1, 'STAGES': st, 'OUTKIND': ok}, units=['util'],
                          overrides=['fatal', 'xmalloc', 'warn'], unwind=8, unwindset=['strlen.0:22', 'strcmp.0:8', 'strrchr.0:8', 'strcpy.0:22', 'memcpy.0:22', 'strdup.0:22'], family=fam, safety=safety, timeout=300,
                          bound={'stages_mask': st, 'output': ('derived/temporary', 'named', 'stdout')[ok]}))
    return L


def instances(build, tier, seed):
    L = driver_instances(tier)
    L.append(Inst('link.two-inputs', 'h_driver.c', {'MODE': 2}, units=['util'], overrides=['fatal', 'xmalloc', 'warn'], unwind=8, family='link',
                  timeout=300, witness=False, bound={'inputs': 2}))
    return L
