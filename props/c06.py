from core import Inst

META = {
    'functions': ['decl.c:addmember', 'decl.c:tagspec (closing ALIGNUP, enum branch)', 'type.c basic type table'],
    'bounds': {},
    'stubs': ['error() ends the path and asserts the model also rejects', 'xmalloc never NULL'],
    'outside': ['aarch64/riscv64-specific bit-field alignment rules (addmember is target independent; only rules shared with SysV x86-64 are claimed)',
                'long double members', 'aligned attribute on types', 'member sequences longer than K'],
}


def layout_instances(tier, fam='layout', safety=False):
    L = []
    ks = (1, 2, 3) if tier == 'quick' else (1, 2, 3, 4)
    for k in ks:
        for var, defs in (('struct', {}), ('union', {'UNION': None}), ('packed', {'PACKED': None})):
            d = {'K': k}
            d.update(defs)
            L.append(Inst('%s.%s.k%d' % (fam, var, k), 'h_layout.c', d, units=['type'], unwind=k + 3, family=fam, safety=safety,
                          native_units=['map', 'util', 'token', 'expr', 'eval', 'init', 'scope', 'targ', 'attr', 'stmt', 'utf', 'scan', 'pp', 'qbe', 'tree'],
                          timeout=300 if tier == 'quick' else 3600, mem_gb=12 if tier == 'quick' else 32,
                          bound={'members': k, 'kind': var, 'member types': '12 scalar + 5 aggregate stand-ins, symbolic', 'bit-field width': 'symbolic 0..8*size',
                                 '_Alignas': 'symbolic in {0,1,..,64}'}))
    return L


def instances(build, tier, seed):
    META['bounds']['layout'] = 'member sequences of length <= %d, struct/union/packed' % (3 if tier == 'quick' else 4)
    return layout_instances(tier)
