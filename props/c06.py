from core import Inst

META = {
    'functions': ['decl.c:addmember', 'decl.c:tagspec', 'decl.c:structdecl', 'decl.c:declspecs', 'decl.c:declarator', 'attr.c:attr/gnuattr', 'expr.c:builtinfunc(offsetof)/sizeof', 'type.c basic type table'],
    'bounds': {},
    'stubs': ['error() ends the path and asserts the model also rejects', 'xmalloc never NULL'],
    'outside': ['aarch64/riscv64-specific bit-field alignment rules (addmember is target independent; only rules shared with SysV x86-64 are claimed)',
                'long double members', 'aligned attribute on types', 'member sequences longer than K'],
}


def layout_instances(tier, fam='layout', safety=False):
    L = []
    ks = (1, 2, 3) if tier == 'quick' else (1, 2, 3, 4)
    for k in ks:
        for var, defs in (('struct', {}), ('union', {'UNION': None}), ('packed', {'PACKED': None})):
            d = {'K': k}
            d.update(defs)
            L.append(Inst('%s.%s.k%d' % (fam, var, k), 'h_layout.c', d, units=['type'], unwind=k + 3, family=fam, safety=safety,
                          native_units=['map', 'util', 'token', 'expr', 'eval', 'init', 'scope', 'targ', 'attr', 'stmt', 'utf', 'scan', 'pp', 'qbe', 'tree'],
                          timeout=300 if tier == 'quick' else 3600, mem_gb=12 if tier == 'quick' else 32,
                          bound={'members': k, 'kind': var, 'member types': '12 scalar + 5 aggregate stand-ins, symbolic', 'bit-field width': 'symbolic 0..8*size',
                                 '_Alignas': 'symbolic in {0,1,..,64}'}))
    return L


FIXED_ABI = [
    'struct T { long n; char tag; char data[]; };',
    'union T { struct { int a; short b[]; } s; char raw[33]; };',
    'struct T { char c; struct { short s; char d; } in; int i; };',
    'struct T { char c; struct { long l; }; short s; };',
    'struct T { char c; union { long l; char d; }; short s; };',
    'struct T { int a : 3; int : 0; int b : 5; char c; };',
    'struct T { char a; long b : 33; short c : 9; };',
    'struct T { unsigned char lo : 5, hi : 5; };',
    'struct T { alignas(16) char c; int i; };',
    'struct T { char c; alignas(8) short s; char d; };',
    'struct __attribute__((packed)) T { char c; int i; short s; long l; };',
    'struct T { char a[3]; short b[2][3]; long c[1]; };',
    'struct T { int a : 8; int : 0; int b : 8; };',
    'struct T { char c; int : 0; char d; };',
    'struct T { short a : 16; short : 0; char d; };',
    'struct T { char c; long : 0; char d; int e : 4; int : 0; };',
    'struct T { int n; char d[]; };',
    'struct T { long n; int d[]; };',
    'struct T { char n; struct { short q; } d[]; };',
    'union T { int a : 5; char c; };',
    'union T { long l : 33; int : 0; char c[3]; };',
    'struct T { char a; alignas(8) char b; char c; };',
    'struct T { _Bool b : 1; char c; };',
    'struct T { long long a : 40; int b : 20; char c; };',
    'struct T { short a : 7; short b : 7; short c : 7; };',
    'struct T { char c; double d; float f; };',
    'union T { char c[5]; short s; };',
    'struct T { int a; struct { char x; } e[3]; long b; };',
]


def abi_instances(tier, seed, fam='abi'):
    """struct/union definitions through the real parser (decl.c:tagspec/structdecl/declspecs/addmember, attr.c) with static assertions on
    sizeof/_Alignof/offsetof whose expected values come from the platform compiler (gcc) at generation time"""
    import random, subprocess, tempfile, os, re
    import parselib
    rng = random.Random(seed)
    scal = ['char', 'short', 'int', 'long', 'long long', 'float', 'double', 'unsigned char', 'unsigned', '_Bool', 'void *']
    defs = list(FIXED_ABI)
    n_random = 14 if tier == 'quick' else 60
    for k in range(n_random):
        mem = []
        for j in range(rng.randint(2, 5)):
            r = rng.random()
            t = rng.choice(scal)
            nm = 'm%d' % j
            if r < 0.3 and t not in ('float', 'double', 'void *'):
                bits = {'char': 8, 'unsigned char': 8, 'short': 16, 'int': 32, 'unsigned': 32, 'long': 64, 'long long': 64, '_Bool': 1}[t]
                w = rng.choice([0, 1, 3, 7, bits - 1, bits]) if bits > 1 else 1
                mem.append('%s %s : %d;' % (t, '' if w == 0 else nm, w))
            elif r < 0.45:
                mem.append('%s %s[%d];' % (t, nm, rng.randint(1, 4)))
            elif r < 0.55:
                mem.append('struct { %s x; %s y; } %s;' % (rng.choice(scal), rng.choice(scal), nm))
            elif r < 0.62:
                mem.append('alignas(%d) %s %s;' % (rng.choice([8, 16, 32]), t, nm))
            else:
                mem.append('%s %s;' % (t, nm))
        kind = 'union' if rng.random() < 0.2 else 'struct'
        defs.append('%s T { %s };' % (kind, ' '.join(mem)))
    L = []
    for n, d in enumerate(defs):
        kind = 'union' if d.startswith('union') else 'struct'
        names = [m for m in re.findall(r'\b(m\d+|n|tag|c|i|s|in|a|b|d|f|l|e|raw|lo|hi)\b(?=\s*(?:\[[^]]*\])*\s*;)', d)]
        names = sorted(set(names))
        # members that are not bit-fields, found by asking gcc whether offsetof compiles
        src = '#include <stdio.h>\n#include <stddef.h>\n#include <stdalign.h>\n%s\nint main(void) { printf("%%zu %%zu\\n", sizeof(%s T), _Alignof(%s T)); return 0; }\n' % (d, kind, kind)
        with tempfile.TemporaryDirectory() as td:
            open(td + '/a.c', 'w').write(src)
            if subprocess.run(['gcc', '-std=c2x', '-w', '-o', td + '/a', td + '/a.c'], capture_output=True).returncode:
                continue
            size, align = subprocess.run([td + '/a'], capture_output=True, text=True).stdout.split()
            offs = []
            for m in names:
                src2 = '#include <stdio.h>\n#include <stddef.h>\n#include <stdalign.h>\n%s\nint main(void) { printf("%%zu\\n", offsetof(%s T, %s)); return 0; }\n' % (d, kind, m)
                open(td + '/b.c', 'w').write(src2)
                if subprocess.run(['gcc', '-std=c2x', '-w', '-o', td + '/b', td + '/b.c'], capture_output=True).returncode == 0:
                    offs.append((m, subprocess.run([td + '/b'], capture_output=True, text=True).stdout.strip()))
        asserts = 'static_assert(sizeof(%s T) == %s); static_assert(_Alignof(%s T) == %s);' % (kind, size, kind, align)
        for m, o in offs:
            asserts += ' static_assert(__builtin_offsetof(%s T, %s) == %s);' % (kind, m, o)
        L.append(parselib.parse_inst('%s.%02d' % (fam, n), d + '\n' + asserts, False, fam, unwind=70, timeout=300))
        L[-1].bound = {'definition': d, 'expected (gcc)': {'sizeof': size, 'alignof': align, 'offsets': dict(offs)}}
    return L


def instances(build, tier, seed):
    META['bounds']['layout'] = 'member sequences of length <= %d, struct/union/packed' % (3 if tier == 'quick' else 4)
    return layout_instances(tier) + abi_instances(tier, seed)
