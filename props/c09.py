from core import Inst

META = {
    'functions': ['decl.c:getlinkage', 'decl.c:declcommon', 'decl.c:mkdecl', 'decl.c:decl (definition, tentative and inline bookkeeping, emittentativedefns)'],
    'bounds': {'symtab': 'histories of <= 3 declarations (<= 1 definition) of one function or object from {none, static, extern, inline, extern inline, static inline} plus a user, block-scope and thread-local variants; oracle gcc -std=c11 + nm', 'linkage': 'one declaration step over every (kind, storage class, scope, prior declaration state) tuple, all symbolic'},
    'stubs': ['scope.c replaced by a one-identifier visibility model', 'typecompatible = identity on two stand-in types', 'error() ends the path after asserting the reference also rejects'],
    'outside': ['undefined references (visible only in the IL text)', 'multi-identifier units beyond f/x plus one user', 'asm labels at parser level (step harness only)',
                'histories the platform compiler rejects'],
}


def instances(build, tier, seed):
    import symlib
    return symlib.instances(tier) + [Inst('linkage.step', 'h_linkage.c', {}, units=[], unwind=8, unwindset=['strcmp.0:8'], family='linkage', timeout=300,
                 native_units=['scope', 'util', 'token', 'expr', 'type', 'eval', 'init', 'map', 'targ', 'attr', 'stmt', 'utf', 'scan', 'pp', 'qbe', 'tree'],
                 bound={'tuple': 'symbolic'}),
            Inst('linkage.step.b', 'h_linkage.c', {'VARIANT_B': None}, units=[], unwind=8, unwindset=['strcmp.0:8'], family='linkage', timeout=300,
                 native_units=['scope', 'util', 'token', 'expr', 'type', 'eval', 'init', 'map', 'targ', 'attr', 'stmt', 'utf', 'scan', 'pp', 'qbe', 'tree'],
                 bound={'tuple': 'symbolic'})]
