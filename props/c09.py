from core import Inst

META = {
    'functions': ['decl.c:getlinkage', 'decl.c:declcommon', 'decl.c:mkdecl'],
    'bounds': {'linkage': 'one declaration step over every (kind, storage class, scope, prior declaration state) tuple, all symbolic'},
    'stubs': ['scope.c replaced by a one-identifier visibility model', 'typecompatible = identity on two stand-in types', 'error() ends the path after asserting the reference also rejects'],
    'outside': ['which definitions are emitted (tentative definitions, inline definitions): parser-level, not in this step', 'multi-identifier units', 'asm labels',
                'nm-level comparison with gcc objects'],
}


def instances(build, tier, seed):
    return [Inst('linkage.step', 'h_linkage.c', {}, units=[], unwind=8, unwindset=['strcmp.0:8'], family='linkage', timeout=300,
                 native_units=['scope', 'util', 'token', 'expr', 'type', 'eval', 'init', 'map', 'targ', 'attr', 'stmt', 'utf', 'scan', 'pp', 'qbe', 'tree'],
                 bound={'tuple': 'symbolic'}),
            Inst('linkage.step.b', 'h_linkage.c', {'VARIANT_B': None}, units=[], unwind=8, unwindset=['strcmp.0:8'], family='linkage', timeout=300,
                 native_units=['scope', 'util', 'token', 'expr', 'type', 'eval', 'init', 'map', 'targ', 'attr', 'stmt', 'utf', 'scan', 'pp', 'qbe', 'tree'],
                 bound={'tuple': 'symbolic'})]
