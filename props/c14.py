from core import Inst

META = {
    'functions': ['utf.c:utf8dec', 'utf.c:utf8enc', 'utf.c:utf16enc'],
    'bounds': {'utf8dec': 'all 2^32 4-byte windows x n in 1..4', 'utf8enc/utf16enc': 'all Unicode scalar values'},
    'stubs': [],
    'outside': [],
}


def instances(build, tier, seed):
    L = []
    for mode, nm in ((1, 'utf8dec'), (2, 'utf8enc'), (3, 'utf16enc')):
        L.append(Inst('utf.%s' % nm, 'h_utf.c', {'MODE': mode}, units=['utf'], unwind=6, family='utf',
                      bound={'input': 'full value space'}))
    natives = ['map', 'util', 'token', 'decl', 'eval', 'init', 'scope', 'attr', 'stmt', 'scan', 'pp', 'qbe', 'tree']
    nb = 5 if tier == 'quick' else 7
    for prefix, pn in enumerate(('plain', 'L', 'u', 'U', 'u8')):
        for target, tnm in enumerate(('x86_64', 'aarch64', 'riscv64')):
            if tier == 'quick' and target == 2 and prefix not in (0,):
                continue      # riscv64 differs from x86_64 only in char signedness
            L.append(Inst('charconst.%s.%s' % (pn, tnm), 'h_charconst.c', {'PREFIX': prefix, 'TARGET': target, 'NB': nb}, units=['utf', 'type', 'targ'],
                          native_units=natives, unwind=nb + 4, unwindset=['strcmp.0:14'], family='charconst', timeout=300 if tier == 'quick' else 1800,
                          bound={'body_bytes': nb, 'prefix': pn, 'target': tnm}))
        if prefix in (0, 2, 4):
            L.append(Inst('charconst.%s.range' % pn, 'h_charconst.c', {'PREFIX': prefix, 'TARGET': 0, 'NB': nb, 'RANGE_PROBE': None}, units=['utf', 'type', 'targ'],
                          native_units=natives, unwind=nb + 4, unwindset=['strcmp.0:14'], family='charconst-range', timeout=300, witness=False,
                          bound={'body_bytes': nb, 'prefix': pn, 'inputs': 'only out-of-range values (known finding probe)'}))
    META['functions'] += ['expr.c:primaryexpr(TCHARCONST)', 'expr.c:decodechar', 'expr.c:isodigit', 'expr.c:mkconstexpr', 'targ.c:targinit']
    META['bounds']['charconst'] = 'all bodies of %d bytes the scanner accepts, 5 prefixes x 3 targets' % nb
    META['stubs'] += ['next() records', 'error() ends the path after asserting the reference also rejects']
    META['outside'] += ['non-ASCII source characters in plain and u8 character constants (implementation-defined value)']
    return L
