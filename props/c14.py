from core import Inst

META = {
    'functions': ['utf.c:utf8dec', 'utf.c:utf8enc', 'utf.c:utf16enc'],
    'bounds': {'utf8dec': 'all 2^32 4-byte windows x n in 1..4', 'utf8enc/utf16enc': 'all Unicode scalar values'},
    'stubs': [],
    'outside': [],
}


def instances(build, tier, seed):
    L = []
    for mode, nm in ((1, 'utf8dec'), (2, 'utf8enc'), (3, 'utf16enc')):
        L.append(Inst('utf.%s' % nm, 'h_utf.c', {'MODE': mode}, units=['utf'], unwind=6, family='utf',
                      bound={'input': 'full value space'}))
    return L
