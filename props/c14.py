from core import Inst

META = {
    'functions': ['utf.c:utf8dec', 'utf.c:utf8enc', 'utf.c:utf16enc'],
    'bounds': {'utf8dec': 'all 2^32 4-byte windows x n in 1..4', 'utf8enc/utf16enc': 'all Unicode scalar values'},
    'stubs': [],
    'outside': [],
}


def instances(build, tier, seed):
    L = []
    for mode, nm in ((1, 'utf8dec'), (2, 'utf8enc'), (3, 'utf16enc')):
        L.append(Inst('utf.%s' % nm, 'h_utf.c', {'MODE': mode}, units=['utf'], unwind=6, family='utf',
                      bound={'input': 'full value space'}))
    natives = ['map', 'util', 'token', 'decl', 'eval', 'init', 'scope', 'attr', 'stmt', 'scan', 'pp', 'qbe', 'tree']
    nb = 5 if tier == 'quick' else 7
    for prefix, pn in enumerate(('plain', 'L', 'u', 'U', 'u8')):
        for target, tnm in enumerate(('x86_64', 'aarch64', 'riscv64')):
            if tier == 'quick' and target == 2 and prefix not in (0,):
                continue      # riscv64 differs from x86_64 only in char signedness
            L.append(Inst('charconst.%s.%s' % (pn, tnm), 'h_charconst.c', {'PREFIX': prefix, 'TARGET': target, 'NB': nb}, units=['utf', 'type', 'targ'],
                          native_units=natives, unwind=nb + 4, unwindset=['strcmp.0:14'], family='charconst', timeout=300 if tier == 'quick' else 1800,
                          bound={'body_bytes': nb, 'prefix': pn, 'target': tnm}))
        if prefix in (0, 2, 4):
            L.append(Inst('charconst.%s.range' % pn, 'h_charconst.c', {'PREFIX': prefix, 'TARGET': 0, 'NB': nb, 'RANGE_PROBE': None}, units=['utf', 'type', 'targ'],
                          native_units=natives, unwind=nb + 4, unwindset=['strcmp.0:14'], family='charconst-range', timeout=300, witness=False,
                          bound={'body_bytes': nb, 'prefix': pn, 'inputs': 'only out-of-range values (known finding probe)'}))
    # string literals: concrete item shapes, symbolic contents (harness/h_strlit.c)
    shapes = ['a', 'x', 'o', '2', '4', 'x2', '2x', 'x3a', 'a2x', 'sx2', '42a', 'xx4']
    if tier == 'thorough':
        shapes += ['s', '3', 'o4', '4o', 'o2o', '23', 'ao3s', 'x4x2', 'o2x3', '4x4', 's2s']
    for pre, pn in ((0, 'plain'), (4, 'u8'), (2, 'u'), (3, 'U'), (1, 'L')):
        for sh in shapes:
            L.append(Inst('strlit.%s.%s' % (pn, sh), 'h_strlit.c', {'PREFIX1': pre, 'SHAPE1': '"%s"' % sh}, units=['utf', 'type', 'targ', 'util'], overrides=['fatal', 'xmalloc', 'error'],
                          native_units=natives, unwind=10, unwindset=['strlen.0:40', 'strcmp.0:14', 'main.0:42', 'main.1:42', 'main.2:42', 'stringconcat.0:3', 'stringconcat.1:%d' % (len(sh) + 2), 'stringconcat.2:3', 'build.0:8'],
                          family='strlit', timeout=300 if tier == 'quick' else 1800, witness=(len(sh) <= 2 or tier != 'quick'), bound={'prefix': pn, 'items': sh, 'contents': 'symbolic'}))
    # concatenation of two literal tokens: the escape state must not leak across tokens, prefixes combine (6.4.5p5), mixed prefixes are diagnosed
    for p1, p2, s1, s2 in ((0, 0, 'x', '2'), (0, 2, '2', 'x'), (2, 0, 'o', '4'), (4, 0, '3', 'x'), (0, 3, 'x', '3'), (1, 1, '4', 'o'), (2, 3, 'a', 'a'), (4, 1, 'a', 'a'), (0, 4, 'x', '2')) + (((0, 2, 'a2', 'x4'), (0, 4, 'x2', '2x')) if tier == 'thorough' else ()):
        L.append(Inst('strlit.concat.%d%d.%s.%s' % (p1, p2, s1, s2), 'h_strlit.c', {'PREFIX1': p1, 'PREFIX2': p2, 'SHAPE1': '"%s"' % s1, 'SHAPE2': '"%s"' % s2}, units=['utf', 'type', 'targ', 'util'],
                      overrides=['fatal', 'xmalloc', 'error'], native_units=natives, unwind=10,
                      unwindset=['strlen.0:40', 'strcmp.0:14', 'main.0:42', 'main.1:42', 'main.2:42', 'stringconcat.0:4', 'stringconcat.1:%d' % (max(len(s1), len(s2)) + 2), 'stringconcat.2:4', 'build.0:8'],
                      family='strlit', timeout=300, witness=not (p1 and p2 and p1 != p2), bound={'prefixes': [p1, p2], 'items': [s1, s2], 'contents': 'symbolic'}))
    META['functions'] += ['expr.c:stringconcat', 'expr.c:encodechar8/16/32']
    META['bounds']['strlit'] = 'literal bodies of 1-4 (5) items over {ASCII, simple escape, \\xHH, \\OOO, UTF-8 characters of 2/3/4 bytes} with symbolic contents, 5 prefixes; two-token concatenations'
    META['functions'] += ['expr.c:primaryexpr(TCHARCONST)', 'expr.c:decodechar', 'expr.c:isodigit', 'expr.c:mkconstexpr', 'targ.c:targinit']
    META['bounds']['charconst'] = 'all bodies of %d bytes the scanner accepts, 5 prefixes x 3 targets' % nb
    META['stubs'] += ['next() records', 'error() ends the path after asserting the reference also rejects']
    META['outside'] += ['non-ASCII source characters in plain and u8 character constants (implementation-defined value)']
    return L
