"""C12: only the flat kernels of the preprocessor are within reach of bounded symbolic checking (measured in the design round and again
after the snapshot rewrites); argument collection, pre-expansion, rescanning and hide/paint are not claimed."""
from core import Inst

META = {
    'functions': ['pp.c:stringize', 'pp.c:macroequal'],
    'bounds': {'stringize': '<= 2 (quick) / 3 (thorough) tokens, symbolic kind among identifier/number/string/character constant, symbolic space flag and 2-character spelling',
               'macroequal': 'two macros, <= 2 parameters, <= 2 replacement tokens, symbolic kinds/names/flags/spellings'},
    'stubs': ['scan() returns EOF', 'error()/fatal() end the path', 'xmalloc never NULL'],
    'outside': ['punctuator tokens in stringize (their spelling comes from the tokstr table; CBMC and the native run disagreed on that path, so it is not claimed)', 'argument collection with nested parentheses and commas', 'argument pre-expansion and rescanning', 'suppression of recursive expansion (hide)',
                'function-like macro names not followed by (', '#undef/#define histories', 'compile(P) == compile(expanded P)'],
}


def instances(build, tier, seed):
    L = []
    for nt in ((1, 2) if tier == 'quick' else (1, 2, 3)):
        L.append(Inst('stringize.t%d' % nt, 'h_pp.c', {'MODE': 1, 'NT': nt}, units=['token', 'util', 'map'], overrides=['error', 'fatal', 'xmalloc'], unwind=8,
                      unwindset=['main.%d:26' % i for i in range(2, 7)] + ['strlen.0:6', 'arrayadd.0:3'], native_units=['scan'], family='stringize', timeout=300 if tier == 'quick' else 1800,
                      bound={'tokens': nt}))
    L.append(Inst('macroequal', 'h_pp.c', {'MODE': 2}, units=['token', 'util', 'map'], overrides=['error', 'fatal', 'xmalloc'], unwind=6, unwindset=['strcmp.0:4'],
                  native_units=['scan'], family='macroequal', timeout=300 if tier == 'quick' else 1800, bound={'params': 2, 'tokens': 2}))
    return L
