"""C12: (a) flat kernels with symbolic inputs: stringize, macroequal; (b) expansion: the real pp.c (define/undef/directive/expand/expandfunc/
ctxnext/peekparen/keyword) runs under CBMC on ~45 concrete macro sets and 18 violating ones (raw tokens from props/pplib.py replace scan.c, typed
rows replace realloc'ed arrays); the delivered token sequence must equal that of the platform preprocessor (gcc -E).  In (b) structure and
spellings are concrete: it is bounded execution of the real code with arbitrary allocator contents, not a quantification over macro sets."""
from core import Inst

META = {
    'functions': ['pp.c:stringize', 'pp.c:macroequal', 'pp.c:define/undef/directive/expand/expandfunc/ctxnext/ctxpush/peekparen/rawnext/nextinto/next/keyword/macroparam/macroget/macrodone'],
    'bounds': {'stringize': '<= 2 (quick) / 3 (thorough) tokens, symbolic kind among identifier/number/string/character constant, symbolic space flag and 2-character spelling',
               'macroequal': 'two macros, <= 2 parameters, <= 2 replacement tokens, symbolic kinds/names/flags/spellings/space flags',
               'expand': 'NCASES macro sets (<= 12 macros, <= 200 raw tokens: C11 6.10.3.5 examples 3 and 7 without ##, pre-expansion, rescanning, recursion suppression, arguments over several lines / with nested parentheses and commas / empty, function-like names without (, stringification, variadics, #undef/#define histories, #line, #pragma, null directive) + NREJ violating sets; oracle gcc -E'},
    'stubs': ['scan() returns EOF (kernels) / feeds the raw token sequence (expand)', 'arrayadd/arrayaddbuf/arraylast/xreallocarray: typed rows', 'snprintf empty', 'strtoull decimal model', 'error()/fatal() end the path', 'xmalloc never NULL'],
    'outside': ['punctuator tokens in stringize (their spelling comes from the tokstr table; CBMC and the native run disagreed on that path, so it is not claimed)', 'macro sets other than the listed ones (no quantification over generated macro sets)', 'scan.c producing the raw tokens (C11/C13)', 'compile(P) == compile(expanded P) beyond token equality', '-E output formatting'],
}


def instances(build, tier, seed):
    L = []
    for nt in ((1, 2) if tier == 'quick' else (1, 2, 3)):
        L.append(Inst('stringize.t%d' % nt, 'h_pp.c', {'MODE': 1, 'NT': nt}, units=['token', 'util', 'map'], overrides=['error', 'fatal', 'xmalloc'], unwind=8,
                      unwindset=['main.%d:26' % i for i in range(2, 7)] + ['strlen.0:6', 'arrayadd.0:3'], native_units=['scan'], family='stringize', timeout=300 if tier == 'quick' else 1800,
                      bound={'tokens': nt}))
    L.append(Inst('macroequal', 'h_pp.c', {'MODE': 2}, units=['token', 'util', 'map'], overrides=['error', 'fatal', 'xmalloc'], unwind=6, unwindset=['strcmp.0:4'],
                  native_units=['scan'], family='macroequal', timeout=300 if tier == 'quick' else 1800, bound={'params': 2, 'tokens': 2}))
    import pplib
    L += pplib.instances(tier)
    META['bounds']['expand'] = META['bounds']['expand'].replace('NCASES', str(len(pplib.CASES))).replace('NREJ', str(len(pplib.REJECT)))
    return L
