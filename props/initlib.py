"""C07 at parser level: `T x = INIT;` goes through the real declaration and initializer parser (decl.c, init.c:parseinit/designator/focus/advance/
initadd, expr.c, eval.c) and qbe.c:emitdata under CBMC; the integer constants $1..$n of the initializer are SYMBOLIC.  The expected image comes
from the platform compiler at generation time: gcc is run once with every placeholder 0 (base image: zero fill, string bytes) and once per
placeholder with all bits set, which yields for every bit of the object the placeholder bit it must hold (little-endian scatter map)."""
import os, re, subprocess, tempfile, hashlib, json
import parselib

CASES = [
    # (name, declaration with `x` as the object and $k placeholders)
    ('scalars', 'struct { char a; int b; short c; long d; } x = {$1, $2, $3, $4};'),
    ('bitfields', 'struct { int a : 3; int b : 7; unsigned c : 12; char d; } x = {$1, $2, $3, $4};'),
    ('elide', 'struct { int a; struct { char b; short c[2]; } s; int d; } x = {$1, $2, $3, $4, $5};'),
    ('partial-braces', 'struct { int a; struct { char b; short c[2]; } s; int d; } x = {$1, {$2, {$3}}, $4};'),
    ('incomplete-desig', 'int x[] = {$1, [3] = $2, $3};'),
    ('desig-then-positional', 'struct { int a, b, c; } x = {.c = $1, .a = $2, $3};'),
    ('override-element', 'struct { int a[3]; int b; } x = {.a = {$1, $2, $3}, .a[1] = $4, .b = $5};'),
    ('override-subaggregate', 'struct { struct { int p, q; } s; int t; } x = {.s.p = $1, .s.q = $2, .s = {$3, $5}, .t = $4};'),
    ('override-last-of-sub', 'struct { int tag; char s[4]; } x = {.tag = $1, .s[0] = $2, .s[2] = $3, .s[3] = $4, .s = "abc"};'),
    ('union-second', 'union { char c; int i; long l; } x = {.i = $1};'),
    ('union-first', 'union { short c; int i; long l; } x = {$1};'),
    ('union-override', 'struct { union { short s; int i; } u; int z; } x = {.u.s = $1, .u.i = $2, $3};'),
    ('string-member', 'struct { char s[6]; int n; } x = {"abc", $1};'),
    ('string-exact', 'struct { char s[4]; char t[3]; } x = {"abcd", "xy"};'),
    ('string-incomplete', 'char x[] = "hello";'),
    ('string-braces', 'char x[8] = {"hi"};'),
    ('string-override', 'struct { char s[8]; } x = {.s = "ab", .s[5] = $1, .s[0] = $2};'),
    ('string-override-inside', 'struct { char s[4]; int k; } x = {.s = "abc", .s[1] = $1, .k = $2};'),
    ('wide-string', 'struct { unsigned short w[4]; int n; } x = {u"ab", $1};'),
    ('wide-string-override', 'struct { unsigned w[4]; } x = {.w = U"a", .w[3] = $1};'),
    ('array2d-elide', 'int x[2][3] = {$1, $2, $3, $4};'),
    ('array2d-braces', 'int x[2][3] = {{$1}, {$2, $3}};'),
    ('array2d-desig', 'short x[2][2] = {[1][0] = $1, $2, [0][1] = $3};'),
    ('zero-width', 'struct { unsigned a : 4; unsigned : 0; unsigned b : 4; unsigned char c; } x = {$1, $2, $3};'),
    ('empty-first', 'int x[2][2] = {{}, $1};'),
    ('empty-first-struct-array', 'struct { int a[2]; int y; } x[2] = {{}, $1};'),
    ('empty-middle', 'struct { int a; int b[2]; int c; } x = {$1, {}, $2};'),
    ('empty-struct-member', 'struct { int a[2]; int y; } x = {{}, $1};'),
    ('array-of-structs', 'struct { int k; struct { char c; int v; } e[2]; } x = {.e[1].v = $1, .e[0] = {$2, $3}, .k = $4};'),
    ('long-bitfields', 'struct { long a : 40; long b : 20; int c : 4; } x = {$1, $2, $3};'),
    ('scalar-braces', 'int x = {$1};'),
    ('scalar-trailing-comma', 'long x = {$1,};'),
    ('nested-desig-continue', 'struct { int a[2]; struct { int p; int q; } s; int z; } x = {.s.p = $1, $2, $3};'),
    ('signed-bitfield-next-to-pad', 'struct { signed char c; int f : 5; short g; } x = {$1, $2, $3};'),
    ('unnamed-bitfield-skipped', 'struct { int a : 4; int : 3; int b : 4; } x = {$1, $2};'),
    ('anonymous-member', 'struct { int a; union { int u1; char u2; }; int b; } x = {$1, $2, $3};'),
    ('anonymous-desig', 'struct { int a; struct { int i1; int i2; }; } x = {.i2 = $1, .a = $2};'),
]
# violating initializers: must be diagnosed (C11 6.7.9p2, 6.7.2.1p18)
REJECT = [
    ('excess-scalar', 'int x = {1, 2};', 'too many initializers for type'),
    ('excess-scalar-local-static', 'void f(void) { static int x = {1, 2}; }', 'too many initializers for type'),
    ('excess-scalar-local', 'void f(void) { int x = {1, 2}; }', 'too many initializers for type'),
    ('excess-pointer', 'int *x = {0, 0};', 'too many initializers for type'),
    ('excess-string', 'char x[] = {"a", "b"};', 'too many initializers for type'),
    ('excess-array', 'int x[2] = {1, 2, 3};', 'too many initializers for type'),
    ('excess-after-desig', 'int x[2] = {[1] = 1, 2};', 'too many initializers for type'),
    ('excess-struct', 'struct { int a; } x = {1, 2};', 'too many initializers for type'),
    ('index-too-large', 'int x[2] = {[2] = 1};', 'index designator is larger than array length'),
    ('flexible-static', 'struct { int n; char d[]; } x = {1, {1, 2}};', 'initialization of flexible array member'),
    ('flexible-string', 'struct { int n; char d[]; } x = {1, "ab"};', 'initialization of flexible array member'),
    ('flexible-desig', 'struct s { int n; int d[]; }; struct s x = {.d[1] = 2};', 'initialization of flexible array member'),
    ('flexible-local', 'void f(void) { struct { int n; char d[]; } x = {1, {1, 2}}; }', 'initialization of flexible array member'),
    ('nested-scalar-braces', 'int x = {{1}};', 'nested braces around scalar initializer'),
    ('empty-unknown-size', 'int x[] = {};', 'array of unknown size has empty initializer'),
    ('member-of-nonstruct', 'int x = {.a = 1};', 'member designator only valid for struct/union types'),
    ('index-of-nonarray', 'struct { int a; } x = {[0] = 1};', 'index designator is only valid for array types'),
    ('no-such-member', 'struct { int a; } x = {.b = 1};', '%s has no member named'),
]
CACHE = '/var/tmp/cproc-verif/initlib-cache.json'


def _gcc_image(decl, vals):
    src = decl
    for k, v in sorted(vals.items(), reverse=True):
        src = src.replace('$%d' % k, v)
    prog = '#include <stdio.h>\n%s\nint main(void) { fwrite(&x, sizeof x, 1, stdout); fprintf(stderr, "%%zu", _Alignof(__typeof__(x))); return 0; }\n' % src
    with tempfile.TemporaryDirectory() as td:
        open(td + '/a.c', 'w').write(prog)
        r = subprocess.run(['gcc', '-std=gnu2x', '-w', '-o', td + '/a', td + '/a.c'], capture_output=True, text=True)
        if r.returncode:
            raise RuntimeError('gcc rejects %s: %s' % (src, r.stderr[:300]))
        o = subprocess.run([td + '/a'], capture_output=True)
        return o.stdout, int(o.stderr)


def oracle(decl):
    try:
        cache = json.load(open(CACHE))
    except Exception:
        cache = {}
    key = hashlib.sha1(decl.encode()).hexdigest()
    if key in cache:
        return cache[key]
    n = max([int(m) for m in re.findall(r'\$(\d+)', decl)] or [0])
    base, align = _gcc_image(decl, {k: '0ULL' for k in range(1, n + 1)})
    own = [[-1, 0] for _ in range(len(base) * 8)]
    for k in range(1, n + 1):
        img, _ = _gcc_image(decl, {j: ('~0ULL' if j == k else '0ULL') for j in range(1, n + 1)})
        assert len(img) == len(base)
        j = 0
        for b in range(len(base) * 8):
            if (img[b // 8] >> (b % 8)) & 1 and not (base[b // 8] >> (b % 8)) & 1:
                assert own[b][0] == -1
                own[b] = [k - 1, j]
                j += 1
    res = {'size': len(base), 'align': align, 'base': list(base), 'own': own, 'n': n}
    cache[key] = res
    os.makedirs(os.path.dirname(CACHE), exist_ok=True)
    json.dump(cache, open(CACHE + '.tmp%d' % os.getpid(), 'w'))
    os.replace(CACHE + '.tmp%d' % os.getpid(), CACHE)
    return res


def static_instances(tier, fam='initparse'):
    L = []
    for nm, decl in CASES:
        o = oracle(decl)
        n, size = o['n'], o['size']
        src = re.sub(r'\$(\d+)', lambda m: '%dULL' % (1000 + int(m.group(1))), decl)
        checks = '\tstatic const signed char own_k[%d] = {%s};\n' % (size * 8, ','.join(str(k) for k, j in o['own']))
        checks += '\tstatic const unsigned char own_j[%d] = {%s};\n' % (size * 8, ','.join(str(j) for k, j in o['own']))
        checks += '\tstatic const unsigned char base_img[%d] = {%s};\n' % (size, ','.join(str(b) for b in o['base']))
        checks += '\tCHECK(!bad, "every emitted item is a well-formed data item");\n\tCHECK(ndefs == 1 && closed == 1, "exactly one definition is emitted and closed");\n'
        checks += '\tCHECK(ipos == %d, "the definition has exactly the size of the object");\n\tCHECK(align_seen == %d, "the definition carries the object\'s alignment");\n' % (size, o['align'])
        checks += '\tbool same = true;\n\tfor (unsigned b = 0; b < %d; b++) {\n' % (size * 8)
        if n:
            checks += '\t\tunsigned want = own_k[b] >= 0 ? (unsigned)(symval[own_k[b]] >> own_j[b]) & 1 : (base_img[b / 8] >> (b % 8)) & 1;\n'
        else:
            checks += '\t\tunsigned want = (base_img[b / 8] >> (b % 8)) & 1;\n'
        checks += '\t\tif (((img[b / 8] >> (b % 8)) & 1) != want) same = false;\n\t}\n'
        checks += '\tCHECK(same, "the emitted image is the one C prescribes: every member holds its converted value, later designators override earlier ones, everything else is zero");\n'
        defs = {'DECODE_DATA': None}
        if n:
            defs['SYM_NUMBERS'] = n
        i = parselib.parse_inst('%s.%s' % (fam, nm), src, False, fam, checks=checks, unwind=70, timeout=300, extra_defs=defs)
        i.unwindset += ['checks.0:%d' % (size * 8 + 2), 'streq.0:22', 'put.0:10', 'printf.0:60', 'main.0:10', 'strtoull.0:26']
        i.bound = {'declaration': decl, 'constants': 'symbolic 64-bit values' if n else 'none', 'expected image': 'gcc scatter map, %d bytes' % size}
        L.append(i)
    return L


def reject_instances(tier, fam='initreject'):
    L = []
    for nm, src, msg in REJECT:
        L.append(parselib.parse_inst('%s.%s' % (fam, nm), src, True, fam, errmsg=msg, unwind=70, timeout=300))
    return L
