"""C09 at parser level: short histories of declarations of one identifier go through the real decl.c (declcommon/getlinkage/decl, tentative and
inline definition bookkeeping); emitfunc/emitdata are replaced by recorders, and the recorded definitions (which, in which order, exported or
local) are compared with the symbol table the platform compiler produces for the same unit (gcc -std=c11 -c; nm), obtained at generation time."""
import os, re, subprocess, tempfile, hashlib, json, itertools
import parselib

FDECL = ['int f(void);', 'static int f(void);', 'extern int f(void);', 'inline int f(void);', 'extern inline int f(void);', 'static inline int f(void);']
FDEF = [d[:-1] + ' { return 1; }' for d in FDECL]
ODECL = ['int x;', 'static int x;', 'extern int x;']
ODEF = ['int x = 1;', 'static int x = 1;', 'extern int x = 1;']
USE_F = 'int use(void) { return f(); }'
USE_X = 'int use(void) { return x; }'
CACHE = '/var/tmp/cproc-verif/sym-cache.json'


def _nm(src):
    with tempfile.TemporaryDirectory() as td:
        open(td + '/a.c', 'w').write(src)
        r = subprocess.run(['gcc', '-std=c11', '-w', '-O0', '-fno-common', '-c', '-o', td + '/a.o', td + '/a.c'], capture_output=True, text=True)
        if r.returncode:
            return None
        out = subprocess.run(['nm', td + '/a.o'], capture_output=True, text=True).stdout
    syms = {}
    for l in out.split('\n'):
        m = re.match(r'^[0-9a-f ]{16} (\w) (\S+)$', l)
        if m:
            syms[m.group(2)] = m.group(1)
    return syms


def oracle(src):
    try:
        cache = json.load(open(CACHE))
    except Exception:
        cache = {}
    key = hashlib.sha1(src.encode()).hexdigest()
    if key not in cache:
        cache[key] = _nm(src)
        os.makedirs(os.path.dirname(CACHE), exist_ok=True)
        json.dump(cache, open(CACHE + '.tmp%d' % os.getpid(), 'w'))
        os.replace(CACHE + '.tmp%d' % os.getpid(), CACHE)
    return cache[key]


def histories(tier):
    """(name, source, kind) - sequences of up to 3 declarations with at most one definition, followed by a use"""
    H = []
    for kind, decls, defs, use in (('f', FDECL, FDEF, USE_F), ('x', ODECL, ODEF, USE_X)):
        items = [(d, False) for d in decls] + [(d, True) for d in defs]
        for n in (1, 2, 3):
            for seq in itertools.product(range(len(items)), repeat=n):
                if sum(1 for k in seq if items[k][1]) > 1:
                    continue
                if kind == 'x' and n == 3 and tier == 'quick' and (sum(seq) % 3):
                    continue
                if kind == 'f' and n == 3 and tier == 'quick' and (sum(seq) * 7 + seq[0]) % 9:
                    continue
                # internal after external linkage is undefined behaviour (C11 6.2.2p7): no expectation (gcc accepts some of these histories)
                st = ['static' in items[k][0] for k in seq]
                if any(st[j] and not all(st[:j]) for j in range(len(st))):
                    continue
                src = '\n'.join(items[k][0] for k in seq) + '\n' + use + '\n'
                nm = kind + '.' + '-'.join(('D' if items[k][1] else 'd') + str(k % len(decls)) for k in seq)
                H.append((nm, src, kind))
    # block scope and thread-local variants
    H += [('blk.static-obj', 'int g(void) { static int x; return x; }\n', 'blk'),
          ('blk.extern-after-static', 'static int x;\nint g(void) { extern int x; return x; }\n', 'blk'),
          ('blk.extern-obj', 'int g(void) { extern int x; return x; }\n', 'blk'),
          ('blk.extern-func', 'int g(void) { extern int f(void); return f(); }\n', 'blk'),
          ('blk.two-statics', 'int g(void) { static int x = 1; return x; }\nint h(void) { static int x = 2; return x; }\n', 'blk'),
          ('tls.extern', '_Thread_local int x;\nint use(void) { return x; }\n', 'tls'),
          ('tls.static', 'static _Thread_local int x = 3;\nint use(void) { return x; }\n', 'tls'),
          ('tentative-array', 'int x[];\nint use(void) { return x[0]; }\nint x[3];\n', 'x'),
          ('tentative-then-def', 'int x;\nint x;\nint x = 2;\nint use(void) { return x; }\n', 'x'),
          ('static-tentative-unused', 'static int x;\nstatic int x;\n', 'x'),
          ]
    return H


def instances(tier, fam='symtab'):
    L = []
    for nm, src, kind in histories(tier):
        syms = oracle(src)
        if syms is None:
            continue          # rejected by the platform compiler: mixed internal/external linkage and the like (undefined behaviour or constraint violation; the step harness covers the diagnostics)
        # definitions in emission order: functions in source order; objects: initialised ones in source order, tentative ones at the end of the unit
        exp = []
        order = re.findall(r'(?m)^(?:static |extern |inline |_Thread_local )*int (f|use|g|h|x)\b[^;{=]*(\{|=|;)', src)
        fdefs = [n for n, t in order if t == '{']
        data_init = [n for n, t in order if t == '=' and n == 'x']
        for fn in fdefs:
            c = syms.get(fn)
            if c in ('T', 't'):
                exp.append((1, fn, 1 if c == 'T' else 0))
            # an inline definition that is not emitted has no symbol (or 'U')
        # objects named x / block-scope statics x.N
        objs = sorted((k, v) for k, v in syms.items() if (k == 'x' or k.startswith('x.')) and v in 'BbDdCSs')
        checks = ''
        nfunc = len(exp)
        nobj = len(objs)
        checks += '\tint nf = 0, no = 0; for (int k = 0; k < nrec && k < MAXREC; k++) { if (rec[k].isfunc) nf++; else no++; }\n'
        checks += '\tCHECK(nf == %d, "exactly the function definitions C11 6.9 requires are emitted (inline definitions without an external declaration are not)");\n' % nfunc
        checks += '\tCHECK(no == %d, "every object is defined exactly once: initialised definitions, one zero definition per tentative definition, none for extern declarations");\n' % nobj
        # order-based comparison of export flags: functions among themselves, objects among themselves
        fl = [g for _, _, g in exp]
        ol = [1 if v in 'BDCS' else 0 for k, v in objs]
        checks += '\t{ static const int fg[%d] = {%s}; int j = 0; bool ok = true; for (int k = 0; k < nrec && k < MAXREC; k++) if (rec[k].isfunc) { if (j < %d && rec[k].global != fg[j]) ok = false; j++; }\n' % (max(1, len(fl)), ','.join(map(str, fl)) or '0', len(fl))
        checks += '\t  CHECK(ok, "functions with external linkage are exported, functions with internal linkage (also when inherited from an earlier declaration) stay local"); }\n'
        if len(set(ol)) <= 1:
            checks += '\t{ bool ok = true; for (int k = 0; k < nrec && k < MAXREC; k++) if (!rec[k].isfunc && rec[k].global != %d) ok = false;\n' % (ol[0] if ol else 0)
            checks += '\t  CHECK(ok, "objects with external linkage are exported, internal-linkage and block-scope static objects stay local"); }\n'
        i = parselib.parse_inst('%s.%s' % (fam, nm), src, False, fam, checks=checks, record=True, unwind=70, timeout=300, witness=(len(L) % 6 == 0))
        i.bound = {'unit': src, 'symbols (gcc/nm)': syms}
        L.append(i)
    return L
