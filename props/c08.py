"""C08 (structural half): aggregate type descriptions handed to the backend describe, field for field, the layout and register classes of the C type."""
import itertools
from core import Inst

META = {
    'functions': ['qbe.c:funcexpr(EXPRCALL)', 'expr.c:postfixexpr (argument conversion)', 'qbe.c:emittype', 'qbe.c:emitclass', 'qbe.c:qbetype', 'qbe.c:emitname', 'decl.c:addmember'],
    'bounds': {'descriptor': 'structs of <= 3 members over {char short int long float double, bit-fields in char/short/int/long units with symbolic width, char[3], int[2], char[2][3], int[2][2]}'},
    'stubs': ['printf/putchar/puts decode the type definition', 'error()/fatal() end the path'],
    'outside': ['mixed cproc/gcc executables (needs QBE and an assembler)', 'call sites beyond the 11 corpus functions (scalar conversions, variadic, function pointer, struct arguments and results by value)', 'unions and nested aggregates', 'va_list descriptors', '_Alignas on members'],
}
ALL = ['decl', 'type', 'util']


def instances(build, tier, seed):
    L = []
    letters = 'csilfdCSILaAmN'
    seqs = [''.join(t) for n in (1, 2) for t in itertools.product(letters, repeat=n)]
    if tier == 'thorough':
        seqs += [''.join(t) for t in itertools.product('cilfCIL', repeat=3)]
    else:
        seqs += [''.join(t) for t in itertools.product('ciCL', repeat=3)][::2]
    for sq in seqs:
        L.append(Inst('descr.%s' % sq, 'h_emittype.c', {'SEQ': '"%s"' % sq}, units=ALL, overrides=['fatal', 'xmalloc', 'error'], unwind=10, unwindset=['streq.0:14'] + ['main.%d:34' % i for i in range(16)],
                      native_units=['tree', 'token', 'map', 'expr', 'eval', 'init', 'scope', 'targ', 'attr', 'stmt', 'utf', 'scan', 'pp'], family='descr',
                      timeout=300, bound={'members': sq, 'bit-field widths': 'symbolic'}))
    # the descriptions are derived from the member layout decl.c:addmember computes: the same struct/union definitions through the real parser with
    # sizeof/_Alignof/offsetof pinned to the platform compiler's values (shared with C06)
    import c06
    L += c06.abi_instances(tier, seed, fam='layout-abi')
    # call sites: whole functions through the real parser and lowering; every call must pass exactly the callee's parameters in the class of their
    # (converted/promoted) type - aggregates as typed addresses, the variadic marker in place - and use the result in its class (harness/h_tv.c)
    import tvcorpus
    L += [i for i in tvcorpus.corpus_instances(tier, fam='callsite') if '.call-' in i.name]
    return L
