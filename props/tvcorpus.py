"""Corpus for the in-memory translation validation (C01-b) and the list of cproc's own leaf functions (C02)."""
import re, os
import tvlib

# (name, function name, source, params, return type, precondition)
CORPUS = [
    ('mix', 'f', 'int f(int a, unsigned char b) { int r = 0; if (a < b) r = a + b; else r = a - b; return r ^ (b << 3); }',
     [('int', 'a'), ('unsigned char', 'b')], 'int', 'in_a > -1000000 && in_a < 1000000'),
    ('ternary', 'f', 'long f(int a, long b) { return a > 0 ? b : a == 0 ? 7 : (long)a * 2; }', [('int', 'a'), ('long', 'b')], 'long', ''),
    ('logic', 'f', 'int f(int a, unsigned b, short c) { return (a && b) || (!c && a < (int)b); }', [('int', 'a'), ('unsigned', 'b'), ('short', 'c')], 'int', ''),
    ('compound', 'f', 'unsigned f(unsigned a, unsigned char b) { a += b; a <<= 2; a ^= b; a -= 3; a |= 1; a >>= 1; a &= 0xffff; return a; }',
     [('unsigned', 'a'), ('unsigned char', 'b')], 'unsigned', ''),
    ('incdec', 'f', 'int f(int a, short b) { int r = a++; r += ++b; r -= a--; r += --b; b++; return r + a + b; }', [('int', 'a'), ('short', 'b')], 'int',
     'in_a > -1000 && in_a < 1000 && in_b > -1000 && in_b < 1000'),
    ('cast', 'f', 'long f(long a) { return (signed char)a + (unsigned short)a + (int)a + (unsigned char)(a >> 8); }', [('long', 'a')], 'long', ''),
    ('divmod', 'f', 'int f(int a, int b) { if (b == 0) return 0; if (b == -1) return 1; return a / b + a % b; }', [('int', 'a'), ('int', 'b')], 'int',
     'in_a > -4096 && in_a < 4096 && in_b > -64 && in_b < 64'),
    ('whileloop', 'f', 'unsigned f(unsigned n, unsigned x) { unsigned s = 1; while (n) { s = s * 3 + x; n--; } return s; }', [('unsigned', 'n'), ('unsigned', 'x')], 'unsigned', 'in_n <= 3'),
    ('forbreak', 'f', 'int f(int n, int k) { int i, s = 0; for (i = 0; i < n; i++) { if (i == k) break; s += i + 1; } return s * 10 + i; }', [('int', 'n'), ('int', 'k')], 'int',
     'in_n >= 0 && in_n <= 3'),
    ('dowhile', 'f', 'int f(int a) { int n = 0; do { a >>= 1; n++; } while (a > 3 && n < 2); return n * 100 + a; }', [('int', 'a')], 'int', 'in_a >= 0 && in_a < 64'),
    ('switch', 'f', 'int f(int a) { int r = 1; switch (a) { case 1: r = 10; break; case -7: r = 20; case 100000: r += 5; break; default: r = a < 0 ? -1 : 2; } return r; }',
     [('int', 'a')], 'int', ''),
    ('goto', 'f', 'int f(int a, int b) { int r = 0; if (a > b) goto big; r = b - 1; goto out; big: r = a + 1; out: return r * 2; }', [('int', 'a'), ('int', 'b')], 'int',
     'in_a > -100000 && in_a < 100000 && in_b > -100000 && in_b < 100000'),
    ('array', 'f', 'int f(int *p, unsigned i) { int t = p[i & 3]; p[(i + 1) & 3] = t + 1; p[0] += p[3]; return p[i & 1]; }', [('int *', 'p', 4), ('unsigned', 'i')], 'int',
     '1'),
    ('ptrarith', 'f', 'long f(short *p, int i) { short *q = p + (i & 3); *q = (short)(i * 3); q++; return (q - p) * 1000 + (q > p) + *(q - 1); }', [('short *', 'p', 6), ('int', 'i')], 'long',
     'in_i > -10000 && in_i < 10000'),
    ('localarray', 'f', 'int f(int a, int b) { int t[4] = {a, b}; t[2] = t[0] * 2; t[3] = t[1] + t[2]; return t[(a & 1) + 2]; }', [('int', 'a'), ('int', 'b')], 'int',
     'in_a > -100000 && in_a < 100000 && in_b > -100000 && in_b < 100000'),
    ('shortcircuit-side', 'f', 'int f(int a, int *p) { int r = (a > 0 && (p[0] = 5)) + (a < 0 || (p[1] = 7)); return r * 10 + p[0] + p[1]; }', [('int', 'a'), ('int *', 'p', 2)], 'int',
     'i_p[0] > -100 && i_p[0] < 100 && i_p[1] > -100 && i_p[1] < 100'),
    ('comma-cond', 'f', 'unsigned f(unsigned a, unsigned b) { unsigned x = (a++, b += a, a * 2); return x > b ? x - b : b - x; }', [('unsigned', 'a'), ('unsigned', 'b')], 'unsigned', ''),
    ('bool', 'f', 'int f(long a, double d) { _Bool x = a; _Bool y = d; return x + y * 2 + !a * 4; }', [('long', 'a'), ('double', 'd')], 'int', 'in_d == in_d'),
    ('float', 'f', 'double f(int a, float x) { double d = a; float g = x + 1; return a > 0 ? d + g : d - g; }', [('int', 'a'), ('float', 'x')], 'double', 'in_x == in_x && in_x > -1e6f && in_x < 1e6f'),
    ('uchar-wrap', 'f', 'int f(unsigned char a, signed char b) { unsigned char c = a + b; signed char d = a - b; return c * 256 + (unsigned char)d; }',
     [('unsigned char', 'a'), ('signed char', 'b')], 'int', ''),
    ('longcmp', 'f', 'int f(unsigned long a, long b, unsigned c) { return (a > (unsigned long)b) + (b < c) * 2 + (a >> 63) * 4 + ((long)a < b) * 8; }',
     [('unsigned long', 'a'), ('long', 'b'), ('unsigned', 'c')], 'int', ''),
]
# nested control-dependent expressions (phi sources must be the blocks that actually precede the join)
CORPUS += [
    ('nestedcond', 'f', 'int f(int a, int b, int c) { return a ? (b ? 1 : 2) : c; }', [('int', 'a'), ('int', 'b'), ('int', 'c')], 'int', ''),
    ('nestedcond-logic', 'f', 'int f(int a, int b, int c) { return a ? b && c : 7; }', [('int', 'a'), ('int', 'b'), ('int', 'c')], 'int', ''),
    ('nestedcond-both', 'f', 'long f(int a, long b, int c) { return a ? (b || c ? b : c) : (c && b ? 3 : b); }', [('int', 'a'), ('long', 'b'), ('int', 'c')], 'long', ''),
    ('cond-in-logic', 'f', 'int f(int a, int b, int c) { return ((a ? b : c) && (b ? c : a)) || !(c ? a : b); }', [('int', 'a'), ('int', 'b'), ('int', 'c')], 'int', ''),
    ('cond-lvalue-ptr', 'f', 'int f(int a, int *p) { *(a ? &p[0] : &p[1]) = a ? (a > 5 ? 3 : 4) : 9; return p[0] * 16 + p[1]; }', [('int', 'a'), ('int *', 'p', 2)], 'int',
     'i_p[0] > -100 && i_p[0] < 100 && i_p[1] > -100 && i_p[1] < 100'),
]
# variable length arrays: the size expression is lowered (possibly into several blocks) before the allocation
CORPUS += [
    ('vla', 'f', 'int f(int n, int v) { int a[n]; a[0] = v; a[n - 1] += 1; return a[0] + (int)sizeof a; }', [('int', 'n'), ('int', 'v')], 'int', 'in_n >= 1 && in_n <= 6 && in_v > -100000 && in_v < 100000'),
    ('vla-cond-size', 'f', 'int f(int n, int v) { int a[n > 0 ? n : 1]; a[0] = v; return a[0] * 2 + (int)(sizeof a / sizeof a[0]); }', [('int', 'n'), ('int', 'v')], 'int',
     'in_n >= -3 && in_n <= 6 && in_v > -100000 && in_v < 100000'),
    ('vla-logic-size', 'f', 'long f(int n, int m) { long a[(n && m) + 1]; a[0] = n; a[(n && m)] = m; return a[0] + (long)sizeof a; }', [('int', 'n'), ('int', 'm')], 'long', ''),
    ('vla-after-return', 'f', 'int f(int n) { if (n > 2) return 1; { int a[n + 1]; a[n] = 5; return a[n] + (int)sizeof a; } }', [('int', 'n')], 'int', 'in_n >= 0 && in_n <= 6'),
]
# conversion of the returned value to the function's return type
CORPUS += [
    ('return-uchar', 'f', 'unsigned char f(int a) { return a; }', [('int', 'a')], 'unsigned char', ''),
    ('return-float', 'f', 'float f(double d, int i) { if (i) return i; return d; }', [('double', 'd'), ('int', 'i')], 'float', 'in_d == in_d && in_d > -1e30 && in_d < 1e30'),
    ('return-bool', 'f', '_Bool f(long a, double d) { if (a & 1) return d; return a; }', [('long', 'a'), ('double', 'd')], '_Bool', 'in_d == in_d'),
    ('return-widen', 'f', 'long f(int a, unsigned b) { if (a > 0) return b; return a; }', [('int', 'a'), ('unsigned', 'b')], 'long', ''),
    ('return-short', 'f', 'short f(unsigned a, long b) { if (b) return b; return a * 3; }', [('unsigned', 'a'), ('long', 'b')], 'short', ''),
]
# calls: (name, function, source, params, return type, precondition, prototypes seen by cproc, callee specifications for the harness)
CORPUS_CALLS = [
    ('call-basic', 'f', 'long f(int a, unsigned char b) { long r = g(a + 1, b); r += g(b, a); return r * 2; }', [('int', 'a'), ('unsigned char', 'b')], 'long',
     'in_a > -100000 && in_a < 100000', 'long g(int, long);', [dict(name='g', ret='long', params=['int', 'long'])]),
    ('call-conv', 'f', 'int f(long a, double d) { return h(a, d, a); }', [('long', 'a'), ('double', 'd')], 'int', 'in_d == in_d && in_d > -1e6 && in_d < 1e6',
     'int h(short, float, unsigned char);', [dict(name='h', ret='int', params=['short', 'float', 'unsigned char'])]),
    ('call-fptr', 'f', 'int f(int (*fp)(int, long), int a) { return fp(a, a) + (*fp)(1, 2); }', [('int (*)(int, long)', 'fp', 'FN', 'g'), ('int', 'a')], 'int', '',
     '', [dict(name='g', ret='int', params=['int', 'long'])]),
    ('call-variadic', 'f', 'int f(int a, long b, double d) { return v(2, a, b, d); }', [('int', 'a'), ('long', 'b'), ('double', 'd')], 'int', 'in_d == in_d',
     'int v(int, ...);', [dict(name='v', ret='int', params=['int'], extra=['int', 'long', 'double'])]),
    ('call-void-ptr', 'f', 'int f(int *p, int a) { set(p + 1, a); set(p, p[1] + 1); return p[0]; }', [('int *', 'p', 2), ('int', 'a')], 'int', 'in_a > -100000 && in_a < 100000',
     'void set(int *, int);', [dict(name='set', ret='void', params=['int *', 'int'], body='*a0 = a1;')]),
    ('call-cond', 'f', 'int f(int a) { return a > 0 ? g(a, 1) : a < -5 ? g(2, a) : 0; }', [('int', 'a')], 'int', '',
     'int g(int, long);', [dict(name='g', ret='int', params=['int', 'long'])]),
    ('call-result-conv', 'f', 'double f(int a) { unsigned char c = k(a); float x = k(a + 1); return c + x; }', [('int', 'a')], 'double', 'in_a > -100000 && in_a < 100000',
     'long k(int);', [dict(name='k', ret='long', params=['int'])]),
    ('call-variadic-promote', 'f', 'int f(signed char c, float x, unsigned short h) { return v(3, c, x, h); }', [('signed char', 'c'), ('float', 'x'), ('unsigned short', 'h')], 'int', 'in_x == in_x',
     'int v(int, ...);', [dict(name='v', ret='int', params=['int'], extra=['int', 'double', 'int'])],
     # the reference side spells the default argument promotions out (CBMC hands sub-int variadic arguments to a user-defined callee unpromoted)
     'int f(signed char c, float x, unsigned short h) { return v(3, (int)c, (double)x, (int)h); }'),
    ('call-variadic-named', 'f', 'long f(int a, float x, unsigned char c) { return w(a, x, 0, c, a); }', [('int', 'a'), ('float', 'x'), ('unsigned char', 'c')], 'long', 'in_x == in_x',
     'long w(long, double, int *, ...);', [dict(name='w', ret='long', params=['long', 'double', 'int *'], extra=['int', 'int'], body='rv_ += (a2 == 0);')],
     'long f(int a, float x, unsigned char c) { return w(a, x, 0, (int)c, a); }'),
    ('call-arg-exprs', 'f', 'long f(int a, int *p) { return g(p[0] ? a : -a, (long)p[1] << 3) + g(a++, a); }', [('int', 'a'), ('int *', 'p', 2)], 'long', 'in_a > -100000 && in_a < 100000',
     'long g(int, long);', [dict(name='g', ret='long', params=['int', 'long'])]),
    ('call-nested', 'f', 'int f(int a) { return g(g(a, 1) + 1, a); }', [('int', 'a')], 'int', '',
     'int g(int, long);', [dict(name='g', ret='int', params=['int', 'long'])]),
]
# automatic objects initialised through the real parseinit + funcinit; values symbolic (function parameters), members read back one by one
AUTOINIT_PRELUDE = 'struct in { char b; short c[2]; }; struct t { int a; struct in s; int d; unsigned f : 5; int g : 7; }; union u { short h; int i; long l; };\n'
CORPUS_AUTOINIT = [
    ('autoinit-elide', 'f', 'void f(long *o, int v1, int v2, int v3, int v4) { struct t x = {v1, v2, v3, v4}; o[0] = x.a; o[1] = x.s.b; o[2] = x.s.c[0]; o[3] = x.s.c[1]; o[4] = x.d; o[5] = x.f; o[6] = x.g; }',
     [('long *', 'o', 7), ('int', 'v1'), ('int', 'v2'), ('int', 'v3'), ('int', 'v4')], 'void', ''),
    ('autoinit-desig', 'f', 'void f(long *o, int v1, int v2, int v3) { struct t x = {.s = {.b = v2}, .s.c[1] = v1, .f = v2, .a = v3}; o[0] = x.a; o[1] = x.s.b; o[2] = x.s.c[0]; o[3] = x.s.c[1]; o[4] = x.d; o[5] = x.f; o[6] = x.g; }',
     [('long *', 'o', 7), ('int', 'v1'), ('int', 'v2'), ('int', 'v3')], 'void', ''),
    ('autoinit-bitfields', 'f', 'void f(long *o, int v1, int v2) { struct t x = {.g = v1, .f = v2}; o[0] = x.a; o[1] = x.d; o[2] = x.f; o[3] = x.g; o[4] = x.s.b; }',
     [('long *', 'o', 5), ('int', 'v1'), ('int', 'v2')], 'void', ''),
    ('autoinit-union', 'f', 'void f(long *o, int v1, int v2) { union u x = {.i = v1}; union u y = {v1}; union u z = {.l = v2}; o[0] = x.i; o[1] = y.h; o[2] = z.i; }',
     [('long *', 'o', 3), ('int', 'v1'), ('int', 'v2')], 'void', ''),
    ('autoinit-array', 'f', 'void f(long *o, int v1, int v2, int v3) { int x[] = {v1, [3] = v2, v3}; short y[2][2] = {{v1}, v2, v3}; o[0] = x[0] + x[1] + x[2]; o[1] = x[3]; o[2] = x[4]; o[3] = sizeof x; o[4] = y[0][0] * 3 + y[0][1]; o[5] = y[1][0]; o[6] = y[1][1]; }',
     [('long *', 'o', 7), ('int', 'v1'), ('int', 'v2'), ('int', 'v3')], 'void', 'in_v1 > -10000 && in_v1 < 10000'),
    ('autoinit-string', 'f', 'void f(long *o, int v1) { char s[8] = "ab"; struct { char t[4]; int n; } x = {.t = "wxyz", .n = v1}; o[0] = s[0] + s[1] * 256 + s[2] + s[7]; o[1] = x.t[0]; o[2] = x.t[1]; o[3] = x.t[3]; o[4] = x.n; }',
     [('long *', 'o', 5), ('int', 'v1')], 'void', ''),
    ('autoinit-string-member', 'f', 'void f(long *o, int v1) { struct { int k; char t[6]; } y = {v1, "hi"}; o[0] = y.k; o[1] = y.t[0] + y.t[1] * 256; o[2] = y.t[2] + y.t[5]; }',
     [('long *', 'o', 3), ('int', 'v1')], 'void', ''),
    ('autoinit-string-override', 'f', 'void f(long *o, int v1) { struct { char t[4]; int n; } x = {.t = "wxyz", .t[1] = v1, .n = v1}; o[0] = x.t[0]; o[1] = x.t[1]; o[2] = x.t[2]; o[3] = x.t[3]; o[4] = x.n; }',
     [('long *', 'o', 5), ('int', 'v1')], 'void', ''),
    ('autoinit-structcopy', 'f', 'void f(long *o, struct t *p, int v1) { struct { struct t k; int z; } x = {*p, v1}; struct t y = {.s = p->s, .a = v1}; o[0] = x.k.a; o[1] = x.k.s.c[1]; o[2] = x.z; o[3] = y.a; o[4] = y.s.b; o[5] = y.d; o[6] = x.k.g; }',
     [('long *', 'o', 7), ('struct t *', 'p', 1), ('int', 'v1')], 'void', ''),
]
CALLSTRUCT_PRELUDE = 'struct p { int x; int z; long y; }; struct q { char c[3]; }; struct big { long a[3]; int b; }; struct fl { float f; double d; };\n'
CORPUS_CALLSTRUCT = [
    ('call-struct-arg', 'f', 'long f(struct p *a, int b) { struct q s = {{1, 2, 3}}; s.c[1] = (char)b; return take(s, *a, b) + a->x; }', [('struct p *', 'a', 1), ('int', 'b')], 'long', '',
     'long take(struct q, struct p, int);', [dict(name='take', ret='long', params=['struct q', 'struct p', 'int'], body='rv_ += a0.c[0] + a0.c[1] * 3 + a0.c[2] * 5 + a1.x + a1.y + a2;')]),
    ('call-struct-ret', 'f', 'long f(struct p *a, int b) { struct p t = mk(*a, b); *a = mk(t, 1); return t.x + t.y; }', [('struct p *', 'a', 1), ('int', 'b')], 'long',
     'r_a[0].x > -100000 && r_a[0].x < 100000 && in_b > -100000 && in_b < 100000 && r_a[0].y > -100000 && r_a[0].y < 100000',
     'struct p mk(struct p, int);', [dict(name='mk', ret='struct p', params=['struct p', 'int'], ret_init='r_.x = a0.x + a1; r_.z = a0.z; r_.y = a0.y * 2 + (long)(rv_ & 0xff);')]),
    ('call-struct-big', 'f', 'int f(struct big *a, struct fl *g) { struct big t = *a; t.b++; struct fl r = conv(t, *g); g->f = r.f; return t.b + (r.d > 1.0); }', [('struct big *', 'a', 1), ('struct fl *', 'g', 1)], 'int',
     'r_a[0].b > -1000 && r_a[0].b < 1000 && r_g[0].d == r_g[0].d && r_g[0].f == r_g[0].f',
     'struct fl conv(struct big, struct fl);', [dict(name='conv', ret='struct fl', params=['struct big', 'struct fl'], ret_init='r_.f = a1.f; r_.d = a1.d + (double)(a0.b & 3);')]),
]
STRUCT_PRELUDE = 'struct s { char c; int x : 5; unsigned y : 11; long l; };\n'
CORPUS_STRUCT = [
    ('bitfield', 'f', 'int f(struct s *p, int a, unsigned char b) { p->x = a; p->y += b; p->c = (char)(p->x + 1); return p->x * 3 + (p->y >> 2) + (int)p->l; }',
     [('struct s *', 'p', 1), ('int', 'a'), ('unsigned char', 'b')], 'int', 'r_p[0].l > -1000000 && r_p[0].l < 1000000'),
    ('structcopy', 'f', 'long f(struct s *p, struct s *q) { struct s t = *p; *p = *q; *q = t; return p->l - q->l + p->c; }', [('struct s *', 'p', 1), ('struct s *', 'q', 1)], 'long',
     'r_p[0].l > -1000000 && r_p[0].l < 1000000 && r_q[0].l > -1000000 && r_q[0].l < 1000000'),
]


def corpus_instances(tier, fam='tv'):
    L = []
    heavy = ('divmod', 'float', 'localarray', 'switch', 'dowhile')      # no verdict within the quick cap (division / float adders / arena indexing / nested search): optional there
    for nm, fn, src, params, ret, pre in CORPUS:
        opt = nm in heavy and tier == 'quick'
        L.append(tvlib.tv_inst('%s.%s' % (fam, nm), fn, src, params, ret, fam, pre=pre, timeout=(120 if opt else 600) if tier == 'quick' else 3600, optional=nm in heavy))
    for ent in CORPUS_CALLS:
        nm, fn, src, params, ret, pre, protos, callees = ent[:8]
        refsrc = ent[8] if len(ent) > 8 else src
        prelude, disp = tvlib.callee_code(callees)
        L.append(tvlib.tv_inst('%s.%s' % (fam, nm), fn, refsrc, params, ret, fam, pre=pre, callees=disp, prelude=prelude, toksrc=protos + '\n' + src, timeout=600 if tier == 'quick' else 3600))
    for nm, fn, src, params, ret, pre, protos, callees in CORPUS_CALLSTRUCT:
        prelude, disp = tvlib.callee_code(callees)
        L.append(tvlib.tv_inst('%s.%s' % (fam, nm), fn, src, params, ret, fam, pre=pre, callees=disp, prelude=CALLSTRUCT_PRELUDE + prelude,
                               toksrc=CALLSTRUCT_PRELUDE + protos + '\n' + src, timeout=600 if tier == 'quick' else 3600))
    for nm, fn, src, params, ret, pre in CORPUS_AUTOINIT:
        L.append(tvlib.tv_inst('%s.%s' % (fam, nm), fn, AUTOINIT_PRELUDE + src, params, ret, fam, pre=pre, timeout=600 if tier == 'quick' else 3600))
    for nm, fn, src, params, ret, pre in CORPUS_STRUCT:
        L.append(tvlib.tv_inst('%s.%s' % (fam, nm), fn, STRUCT_PRELUDE + src, params, ret, fam, pre=pre, timeout=600 if tier == 'quick' else 3600))
    return L


# ---- C02: cproc's own leaf functions, extracted from the current working tree ----------------------------------------------------
SELF = [
    # (unit, function, params, return type, precondition, typedef prelude for the cproc side)
    ('utf.c', 'utf8enc', [('unsigned char *', 's', 4), ('unsigned', 'c')], 'size_t', 'in_c < 0x110000 && !(in_c >= 0xd800 && in_c < 0xe000)'),
    ('utf.c', 'utf8dec', [('unsigned *', 'c', 1), ('unsigned char *', 's', 4), ('size_t', 'n')], 'size_t', 'in_n >= 1 && in_n <= 4'),
    ('utf.c', 'utf16enc', [('unsigned short *', 's', 2), ('unsigned', 'c')], 'size_t', 'in_c < 0x110000 && !(in_c >= 0xd800 && in_c < 0xe000)'),
    ('scan.c', 'isodigit', [('int', 'c')], 'int', ''),
    ('expr.c', 'isodigit', [('int', 'c')], 'int', ''),
    ('map.c', 'hash', [('unsigned char *', 'ptr', 2), ('size_t', 'len')], 'unsigned long', 'in_len <= 2'),
]
TYPEDEFS = 'typedef unsigned uint_least32_t; typedef unsigned short uint_least16_t; typedef unsigned long size_t;\n'


def extract_function(repo, unit, name):
    txt = open(os.path.join(repo, unit)).read()
    m = re.search(r'(?m)^((?:static )?[A-Za-z_][\w \*]*)\n%s\(([^)]*)\)\n\{\n(.*?)\n\}\n' % re.escape(name), txt, re.S)
    if not m:
        return None
    src = '%s %s(%s)\n{\n%s\n}\n' % (m.group(1).replace('static ', '').replace('inline ', ''), name, m.group(2), m.group(3))
    src = src.replace('assert(0);', ';')       # unreachable under the stated preconditions (checked by C14/C19)
    return src


def self_instances(repo, tier, fam='self'):
    L = []
    for unit, fn, params, ret, pre in SELF:
        src = extract_function(repo, unit, fn)
        if src is None:
            continue
        # the cproc side needs the typedefs as tokens; the CBMC side gets them from <stdint.h>/<stddef.h> via common.h
        inst = tvlib.tv_inst('%s.%s.%s' % (fam, unit[:-2], fn), fn, src, params, ret, fam, pre=pre, toksrc=TYPEDEFS + src, timeout=600 if tier == 'quick' else 3600,
                             backends=('sat',), optional=False)
        if fn == 'utf8dec':
            inst.witness = False      # 150 s / 10 GB per query; the other self.* twins witness the same harness
        inst.bound['unit'] = unit
        L.append(inst)
    return L
