from core import Inst
import exprlib

META = {
    'functions': ['eval.c:eval', 'eval.c:binary', 'eval.c:unary', 'eval.c:cast', 'expr.c:mkbinaryexpr', 'expr.c:exprconvert', 'type.c:typecommonreal', 'type.c:typehasint'],
    'bounds': {'fold': 'operator x (left type, right type) skeleton concrete, operand values fully symbolic (64-bit / all non-NaN floats); folded carrier == C value',
               'cast': 'all 14x14 conversions, all representable source values'},
    'stubs': ['error() ends the path (asserting the operation was indeed invalid)', 'xmalloc never NULL'],
    'outside': ['literal text -> value (strtoull/strtod)', 'long double', 'float * and / (no solver verdict within the cap)', 'NaN operands'],
}


def instances(build, tier, seed):
    L = exprlib.expr_instances(tier, seed, 'ONLY_FOLD', 'fold')
    L += exprlib.cast_instances(tier, seed, 'ONLY_FOLD', 'fold')
    # division by zero / MIN / -1 in a constant expression must be diagnosed, not trap the compiler
    for opk, opn in ((1, 'div'), (2, 'mod')):
        for (l, r) in ((6, 6), (7, 6), (8, 8), (9, 6), (3, 10)):
            L.append(Inst('fold.%s-undefined.%s.%s' % (opn, exprlib.TYPES[l], exprlib.TYPES[r]), 'h_expr.c',
                          {'LT': l, 'RT': r, 'OPK': opk, 'WANT': exprlib.result_type(opk, l, r), 'LCONV': exprlib.common(l, r), 'RCONV': exprlib.common(l, r), 'FOLD_DIVZERO': None},
                          units=['expr', 'eval', 'type', 'util'], overrides=['fatal', 'xmalloc', 'error'], native_units=exprlib.NATIVE, unwind=4,
                          family='fold.undefined', witness=False, timeout=120, extra=['--div-by-zero-check', '--signed-overflow-check'], bound={'operator': opn, 'inputs': 'divisor 0 or MIN/-1'}))
    import foldlib
    L += foldlib.instances(tier)
    return L
