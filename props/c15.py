from core import Inst
import functools

META = {
    'functions': ['tree.c:treeinsert', 'tree.c:balance', 'tree.c:rot', 'tree.c:height', 'qbe.c:switchcase', 'qbe.c:funcswitch', 'qbe.c:casesearch',
                  'qbe.c:funcinst', 'qbe.c:mkinst', 'qbe.c:funcjnz', 'qbe.c:funcjmp', 'qbe.c:funclabel', 'qbe.c:mkblock', 'qbe.c:mkintconst'],
    'bounds': {},
    'stubs': ['xmalloc = malloc, never NULL'],
    'outside': ['trees with more nodes than the bound (the step is inductive over shapes, so histories are not bounded, sizes are)'],
}


@functools.lru_cache(None)
def shapes(n):
    """all AVL shapes with n nodes as nested tuples (left, right) / None, with their height"""
    if n == 0:
        return [(None, 0)]
    out = []
    for l in range(n):
        for ls, lh in shapes(l):
            for rs, rh in shapes(n - 1 - l):
                if abs(lh - rh) <= 1:
                    out.append(((ls, rs), max(lh, rh) + 1))
    return out


def build_code(shape):
    """in-order numbering; returns (C statements, root index, n)"""
    stm = []
    ctr = [0]

    def rec(s):
        if s is None:
            return None, 0
        l, lh = rec(s[0])
        me = ctr[0]
        ctr[0] += 1
        r, rh = rec(s[1])
        h = max(lh, rh) + 1
        stm.append('nd%d.node.key = keys[%d]; nd%d.node.child[0] = %s; nd%d.node.child[1] = %s; nd%d.node.height = %d; nd%d.node.new = false;'
                   % (me, me, me, '&nd%d.node' % l if l is not None else '0', me, '&nd%d.node' % r if r is not None else '0', me, h, me))
        return me, h
    root, h = rec(shape)
    return stm, root, ctr[0], h


def tree_instances(tier, fam='tree', safety=False):
    maxn = 5 if tier == 'quick' else 7      # 5 nodes: smallest pre-state in which a double rotation moves non-empty subtrees
    L = []
    for n in range(0, maxn + 1):
        for si, (shape, h) in enumerate(shapes(n)):
            stm, root, cnt, hh = build_code(shape)
            inc = '#define NNODES %d\n#define HEIGHT %d\n#define BUILD() do { %s root = %s; } while (0)\n' % (
                n, h, ' '.join(stm), '&nd%d.node' % root if root is not None else '0')
            inc += '#define NODE_DECLS %s\n#define NODE_PTRS %s\n' % (
                ' '.join('static struct sc nd%d;' % i for i in range(n)), ' '.join('&nd%d.node,' % i for i in range(n)))
            u = h + 3
            L.append(Inst('%s.n%d.shape%d' % (fam, n, si), 'h_tree.c', {}, units=['tree'], unwind=max(n + 3, u), family=fam,
                          unwindset=['treeinsert.0:%d' % u, 'treeinsert.1:%d' % u, 'find.0:%d' % (h + 4)],
                          files={'shape.inc': inc}, timeout=120 if tier == 'quick' else 900, mem_gb=8 if tier == 'quick' else 24,
                          safety=safety, bound={'nodes': n, 'height': h, 'keys': 'symbolic 64-bit'}))
    return L


ALLNATIVE = ['tree', 'util', 'token', 'map', 'type', 'decl', 'expr', 'eval', 'init', 'scope', 'targ', 'attr', 'stmt', 'utf', 'scan', 'pp']


def link_code(shape):
    stm = []
    ctr = [0]

    def rec(s):
        if s is None:
            return None, 0
        l, lh = rec(s[0])
        me = ctr[0]
        ctr[0] += 1
        r, rh = rec(s[1])
        h = max(lh, rh) + 1
        stm.append('nd%d.node.child[0] = %s; nd%d.node.child[1] = %s; nd%d.node.height = %d;'
                   % (me, '&nd%d.node' % l if l is not None else '0', me, '&nd%d.node' % r if r is not None else '0', me, h))
        return me, h
    root, h = rec(shape)
    return stm, root


def ladder_instances(tier, fam='ladder', safety=False):
    maxn = 4 if tier == 'quick' else 7
    L = []
    for n in range(0, maxn + 1):
        for si, (shape, h) in enumerate(shapes(n)):
            stm, root = link_code(shape)
            inc = '#define NNODES %d\n#define HEIGHT %d\n#define LINK() do { %s cases.root = %s; } while (0)\n' % (
                n, h, ' '.join(stm), '&nd%d' % root if root is not None else '0')
            inc += '#define NODE_DECLS %s\n#define NODE_PTRS %s\n' % (
                ' '.join('static struct switchcase nd%d;' % i for i in range(n)), ' '.join('&nd%d,' % i for i in range(n)))
            for ctrl, nm in enumerate(('int', 'uint', 'long', 'ulong')):
                if tier == 'quick' and n >= 3 and nm in ('long',):
                    continue
                L.append(Inst('%s.n%d.shape%d.%s' % (fam, n, si, nm), 'h_switchshape.c', {'CTRL': ctrl}, units=['tree', 'util', 'type'],
                              overrides=['fatal', 'xmalloc'], native_units=ALLNATIVE, unwind=n + 3, family=fam, safety=safety,
                              unwindset=['il_run.0:24', 'il_is_stop.0:14', 'il_run.1:70', 'casesearch.0:%d' % (h + 2)], files={'shape.inc': inc},
                              timeout=120 if tier == 'quick' else 1800, mem_gb=8 if tier == 'quick' else 24,
                              bound={'case_labels': n, 'tree_height': h, 'controlling_type': nm,
                                     'constants': 'symbolic type (int/unsigned/64-bit) and value', 'probe': 'symbolic'}))
    return L


def instances(build, tier, seed):
    L = tree_instances(tier) + ladder_instances(tier)
    META['bounds']['ladder'] = 'every AVL shape with <= %d case labels x 4 promoted controlling types; constants of symbolic type/value, symbolic run-time value' % (4 if tier == 'quick' else 7)
    META['bounds']['tree'] = 'one insertion into every AVL shape with <= %d nodes, keys and new key symbolic 64-bit' % (5 if tier == 'quick' else 7)
    return L
