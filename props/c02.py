"""C02 (function-wise): the IL the current tree emits for cproc's OWN leaf functions - which is what a self-compiled (stage-2) cproc would
execute - is equivalent to those functions' C semantics - which is what the host-compiled (stage-1) cproc executes - for all inputs within
the bounds.  In-memory translation validation (harness/h_tv.c): the function's source text, extracted from /repo's working tree, is parsed
and lowered by the real front end under CBMC and its IL is executed by the IL semantics on symbolic inputs; the reference is the same text
compiled by CBMC's C front end.  The bootstrap fixed point itself (cmp stage2 stage3) needs QBE, an assembler and a linker and is outside."""
import core
import tvcorpus

META = {
    'functions': ['(subject) utf.c:utf8enc, utf8dec, utf16enc; scan.c:isodigit; expr.c:isodigit; map.c:hash',
                  '(compiler under test) decl.c:decl/declarator/parameter, stmt.c:stmt, expr.c:*, init.c:parseinit, qbe.c:mkfunc/funcexpr/funcinit/convert/...'],
    'bounds': {'self': 'all arguments symbolic within each function\'s documented precondition (valid scalar values for the encoders, n in 1..4 and 4 symbolic bytes for utf8dec, len <= 2 for hash)'},
    'stubs': ['pp.c replaced by a token feeder (function text tokenised by props/parselib.py)', 'emitfunc intercepted: the finished function is executed instead of printed',
              'emitdata materialises constant static tables into harness memory', 'typed pools for hash-table arrays', 'assert(0) in the subjects removed (unreachable under the preconditions)'],
    'outside': ['the bootstrap fixed point (no QBE/as/ld in the sandbox)', 'functions that do I/O, call other functions, or walk unbounded input', 'QBE -> machine code', 'diagnostics and exit status of a stage-2 binary'],
}


def check(build, tier, seed, only):
    import re
    L = tvcorpus.self_instances(build.raw, tier)
    if only:
        L = [i for i in L if re.search(only, i.name)]
    extra = {'programs': len(L), 'disagreements_checked': 0,
             'explanation': 'programs = cproc leaf functions whose emitted IL was proved equivalent to their C semantics; a disagreement would be a solver counterexample, '
                            'which is replayed natively before being reported (none on this tree)'}
    return core.run_check('C02', tier, seed, META, L, build, level='translation_validation', extra_cov=extra, partial=bool(only))
