from core import Inst
import exprlib

META = {
    'functions': ['expr.c:mkbinaryexpr', 'expr.c:commonreal', 'expr.c:exprpromote', 'expr.c:exprconvert', 'expr.c:mkconstexpr', 'type.c:typepromote',
                  'type.c:typecommonreal', 'type.c:typerank', 'type.c:typecompatible'],
    'bounds': {'typing': 'every (operator, left type, right type) over 14 arithmetic types x 18 binary operators, x86_64 char signedness; reference = CBMC C front end (_Generic on the C expression)'},
    'stubs': ['error() ends the path after asserting nothing well-typed is rejected', 'xmalloc never NULL'],
    'outside': ['floating constants', 'long double', 'aarch64/riscv64 char signedness in this family (target dependence of typing is only the promotion of plain char, which is int on all three)',
                'pointer arithmetic typing', 'composite types'],
}


def want_table(opk):
    rows = []
    for l in range(14):
        row = []
        for r in range(14):
            bad = (opk in exprlib.INTONLY and (l >= 12 or r >= 12))
            row.append(-1 if bad else exprlib.result_type(opk, l, r))
        rows.append('{' + ','.join(str(x) for x in row) + '}')
    return 'static const signed char WANT[14][14] = {' + ','.join(rows) + '};\n'


def instances(build, tier, seed):
    L = []
    for opk, opn in enumerate(exprlib.OPS):
        inc = want_table(opk)
        for bf in (False, True):
            for l in range(12 if bf else 14):
                defs = {'OPK': opk, 'LEFT': l}
                if bf:
                    defs['BF'] = None
                L.append(Inst('type.%s.%s%s' % (opn, exprlib.TYPES[l], '.bitfield' if bf else ''), 'h_types.c', defs, units=['expr', 'eval', 'type', 'util'],
                              overrides=['fatal', 'xmalloc', 'error'], native_units=exprlib.NATIVE + ['qbe'], unwind=4, files={'want.inc': inc},
                              family='type.' + opn, timeout=120 if tier == 'quick' else 600,
                              witness=not (opk in exprlib.INTONLY and l >= 12),    # every right type is a constraint violation there: all paths end in error()
                              bound={'operator': opn, 'left': exprlib.TYPES[l] + (' bit-field, symbolic width' if bf else ''), 'right': 'symbolic over 14 arithmetic types'}))
    natives = ['map', 'util', 'token', 'decl', 'eval', 'init', 'scope', 'attr', 'stmt', 'scan', 'pp', 'qbe', 'tree', 'utf', 'targ']
    sufs = ['', 'u', 'l', 'ul', 'll', 'ull', 'LU', 'llu'] if tier == 'quick' else ['', 'u', 'U', 'l', 'L', 'ul', 'lu', 'UL', 'll', 'LL', 'ull', 'llu', 'LLU']
    for base in (8, 10, 16, 2):
        for sf in sufs:
          variants = [('', 0)]
          if base == 10:
              # decimal: digits are the symbolic input; a fully symbolic 10-19 digit spelling gives no verdict in 300 s (symbolic end of the digit
              # string), so the leading digits are concrete around each type limit and the last two are symbolic, plus all 1-3 digit constants
              variants = [('', 3), ('21474836', 2), ('42949672', 2), ('92233720368547758', 2), ('184467440737095516', 1)]
          for dpre, ndig in variants:
            L.append(Inst('literal.base%d.%s%s' % (base, sf or 'none', ('.p%s' % (dpre[:4] or 'short')) if base == 10 else ''), 'h_intlit.c',
                          {'BASE': base, 'SUFFIX': '"%s"' % sf, 'NDIG': ndig or 1, 'DPREFIX': '"%s"' % dpre}, units=['type', 'utf'], native_units=natives,
                          unwind=(len(dpre) + ndig + 14) if base == 10 else 72, unwindset=['strcmp.0:8', 'strpbrk.0:10', 'strpbrk.1:82'], family='literal',
                          timeout=300 if tier == 'quick' else 900, backends=['sat', 'z3'],
                          bound={'base': base, 'suffix': sf, 'digits': ('%s + %d symbolic digits' % (dpre, ndig)) if base == 10 else 'symbolic (full 64-bit value)'}))
    import typeoflib
    L += typeoflib.instances(tier)
    return L
